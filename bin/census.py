#!/usr/bin/env python3
"""census.py <PROP> <tier> <cases> <seed...> : run workers directly and sum counters with a given prefix
(used to enumerate failing classes for known_findings.jsonl; not a registered check)."""
import sys, subprocess, json, os, collections
prop, tier, cases = sys.argv[1], sys.argv[2], int(sys.argv[3])
seeds = sys.argv[4:] or ["20260921"]
root = os.path.normpath(os.path.join(os.path.dirname(os.path.abspath(__file__)), ".."))
exe = os.path.join(root, "sim/target/debug/simcheck")
env = dict(os.environ, LD_PRELOAD=os.path.join(root, "sim/libsim/libsim.so"), VERIF_ROOT=root)
tot = collections.Counter(); classes = collections.defaultdict(lambda: collections.Counter())
for seed in seeds:
    procs = [subprocess.Popen([exe, "worker", prop, "--tier", tier, "--seed", seed, "--shard", f"{i}/16", "--cases", str(cases)],
                              stdout=subprocess.PIPE, stderr=subprocess.DEVNULL, env=env, text=True) for i in range(16)]
    for p in procs:
        for line in p.stdout:
            if line.startswith("A "):
                for k, v in json.loads(line[2:])["counters"].items():
                    tot[k] += v
            elif line.startswith("V "):
                j = json.loads(line[2:]); classes[j["violation"]["class"]][seed] += 1
        p.wait()
print(json.dumps({"counters": {k: v for k, v in sorted(tot.items())}, "violation_classes": {k: dict(v) for k, v in sorted(classes.items())}}, indent=1))
