#!/bin/bash
# bin/verify_seed.sh <worktree> <seeddir> : confirm in a scratch worktree that the demonstration passes
# without the change and fails with it, and that the patch applies and builds. Prints one summary line.
WT="$1"; SD="$2"
cd "$WT" || exit 2
git checkout -q -- oxidize-pdf-core/src 2>/dev/null
DEMO="$SD/demo_test.rs"
[ -f "$DEMO" ] || { echo "RESULT $SD no-demo"; exit 0; }
cp "$DEMO" oxidize-pdf-core/tests/verif_seed_demo.rs
cargo test --offline -p oxidize-pdf --test verif_seed_demo > "$SD/run_without.log" 2>&1; A=$?
git apply "$SD/patch.diff" || { echo "RESULT $SD patch-does-not-apply"; rm -f oxidize-pdf-core/tests/verif_seed_demo.rs; exit 0; }
cargo build --offline -p oxidize-pdf > "$SD/build_with.log" 2>&1; BLD=$?
cargo test --offline -p oxidize-pdf --test verif_seed_demo > "$SD/run_with.log" 2>&1; B=$?
git checkout -q -- oxidize-pdf-core/src
rm -f oxidize-pdf-core/tests/verif_seed_demo.rs
echo "RESULT $SD without_exit=$A build_with=$BLD with_exit=$B"
