#!/usr/bin/env python3
"""Writes /verif/MANIFEST.json from the tables below (single source of truth for the interface)."""
import json, os

ROOT = os.path.normpath(os.path.join(os.path.dirname(os.path.abspath(__file__)), ".."))

CLAIMED = {
    # id: (level, technique, level text, level note, design_ref)
    "C29": ("exploration",
            "deterministic simulation: shuttle seeded random/PCT schedules + Wing-Gong linearizability check against a reference LRU",
            "Seeded search over operation histories and thread interleavings of the real LruCache/ObjectCache code; every schedule's history is checked for linearizability against a 40-line reference LRU, sequential histories op by op. Sampling, not enumeration: a clean run is evidence, not proof.",
            "Trusts shuttle's scheduler model (sequentially consistent atomics/locks) and the reference LRU as the meaning of 'least recently used'.",
            "DESIGN.md §4 C29, §3"),
    "C01": ("exploration",
            "deterministic simulation: seeded corpus + stored-image fault plans + fault-injecting byte source + owned clock/allocator/process boundary, every parsing preset",
            "Seeded search over (seed image x 0-4 stored-image faults x source fault plan x clock jump) with the reader run under strict/default/tolerant/skip_errors on fresh threads in worker processes; oracles: no panic (overflow checks on), no process death (stack overflow, abort), bounded I/O steps, bounded CPU time, bounded single and live allocations. Every violation is re-executed in a fresh child process and minimised (mutation list, then byte ranges) before it is reported.",
            "Thresholds standing for 'unbounded' are 120 s CPU, 1 GiB single allocation, 2 GiB live heap, 2e6 + 200 x length I/O calls. Images are small (<= 400 KiB). 'lenient' is an alias of 'tolerant' in the library.",
            "DESIGN.md §4 C01, §2"),
    "C02": ("exploration",
            "deterministic simulation: generated authoring programs written and read back through shortening byte seams under every writer configuration; fault-free baseline run and an independent reader as references",
            "Seeded search over (authoring program x writer configuration x sink plan x source plan x reader preset). The view of the fault-free classic/uncompressed run is the reference (and is itself checked against the operator lines the authoring API reports); every other configuration, written through a sink that shortens writes and read through a source that shortens reads at every offset, must yield the identical view in the library's reader, and the independent reader must agree on page count, boxes, rotation, content bytes and images.",
            "Transport part of C02 only (operator-level parse/serialise agreement is C21, a pure function). The independent reader is refpdf, written for this harness.",
            "DESIGN.md §4 C02, §2.3"),
    "C03": ("exploration",
            "deterministic simulation: generated authoring programs written through a fault-injecting sink under every writer configuration; independent structural reader + strict parser as oracles",
            "Seeded search over (authoring program with delimiter-laden names and text x writer configuration x optional encryption x sink fault plan). The image left on the simulated disk is checked by refpdf, an independent structural reader (exact xref offsets, /Size, stream /Length, reference resolution, strict token grammar, object-stream slots), and by the library's strict parser with every page walked. Through a failing sink the writer must return Err or leave a complete valid file; through a merely shortening sink it must succeed with identical bytes.",
            "refpdf is independent of the library's parser but written for this harness (no third-party validator is installed). Encrypted output is validated structurally only.",
            "DESIGN.md §4 C03, §2.2"),
    "C04": ("exploration",
            "deterministic simulation: seeded append-only revision histories from a synthetic writer, read back through a fault-injecting byte source after every revision and compared with a reference map",
            "Seeded search over histories of 1-6 revisions (redefine / free / re-add; xref table or stream per revision; objects plain or in object streams), every prefix opened through SimSource (fault-free and short reads at every offset) under all four presets and compared object by object with a reference map known by construction; a recovery variant damages the stored xref data so the header scan is used.",
            "Trusts the harness's synthetic PDF writer (sim/simcheck/src/synth.rs) to emit valid files; ground truth is by construction, never read back through the library.",
            "DESIGN.md §4 C04, §2"),
    "C05": ("exploration",
            "deterministic simulation: encryption under owned OS entropy / clock / pid, written and read back through fault-injecting byte seams, unencrypted run as reference",
            "Seeded search over (authoring program x strength x passwords x permission bits x writer configuration x entropy mode incl. all-zero/all-0xFF x source plan x reader preset). Because entropy, clock and pid are owned, each run's salts, file key, file id and IVs are a function of the seed and replay exactly. The unencrypted fault-free view is the reference; the encrypted file must be recognised as encrypted, expose nothing while locked, refuse a wrong password, and give the identical view with either password; permission flags must survive.",
            "The reference is the library's own reading of the unencrypted document. No independent decryptor is installed (that is C06, not claimed).",
            "DESIGN.md §4 C05, §1.1"),
    "C17": ("exploration",
            "deterministic simulation: histories of incremental edits over library-written bases, checked after every appended revision against a reference model, a byte-prefix oracle and an independent chain reader",
            "Seeded search over (base document x writer configuration x history of 1-6 form fills / text-note add-update-remove / page replacements x source plan x preset). After every applied edit: exact byte prefix (append-only), the library (through a short-reading source) and the independent reader both resolve every field and note to its newest value, the /Prev chain is strictly decreasing with monotone /Size and structurally valid sections, and every object outside the appended section's change set is unchanged.",
            "Reference model {field -> value}, [notes] kept by the harness. Covers IncrementalFormFiller, IncrementalTextNoteEditor and PdfWriter::write_incremental_with_page_replacement (base through a real temp file as inert input). One open known finding: the PdfWriter incremental writers drop document-level catalog entries.",
            "DESIGN.md §4 C17"),
    "C19": ("fault_enumeration",
            "deterministic simulation: enumerated stored-image fault catalogue (D1-D12 + sampled pairs) on the xref section, intact run as reference",
            "For every sampled valid file the complete single-damage catalogue (60-110 instances) and sampled ordered pairs are applied to the stored image; each damaged image is opened with recovery enabled (through SimSource, also with short reads) and catalog, page count and every object are compared with the intact image. The library's own tracing event tells whether recovery was entered, which separates the one known root cause (damaged table accepted, recovery never entered) from unfaithful recovery.",
            "The intact file as read by the library is the reference. Files and damage pairs are sampled by seed; single damages are exhausted per file. Known findings (known_findings.jsonl) cover the 'accepted-damaged-xref' family only.",
            "DESIGN.md §4 C19, §2.2"),
    "C20": ("exploration",
            "deterministic simulation: the same authoring program serialised under many owned OS-entropy streams, fixed and advancing clocks, owned pid",
            "Seeded search over (authoring program x writer configuration); each program is serialised on fresh threads under 8 (quick) / 26 (thorough) entropy streams including all-zero and all-0xFF, with the clock held fixed: all outputs must be byte-identical; a guard run repeats one stream (any difference would reveal an unowned source); with the clock advancing only the masked date fields may differ. A difference is reported with the two entropy seeds that produce it and replays exactly.",
            "Entropy, clock and pid are owned via LD_PRELOAD (sim/libsim); the seam self-test fails the run (exit 2) if the preload is ineffective. Cross-process repetition is covered by the determinism self-test (same seeds, different worker processes).",
            "DESIGN.md §4 C20, §1.1"),
    "C22": ("exploration",
            "deterministic simulation: shuttle seeded random/PCT schedules of the real worker pool with injected job failures, panics and cancellation",
            "Seeded search over schedules of dispatcher, 1-4 workers, collector, progress poller and a canceller thread, with job outcome vectors over {Ok, Err, Panic}; oracles O1-O6 over the recorded history; deadlock and bounded-progress detection by the scheduler.",
            "Trusts shuttle's model of Mutex/mpsc/atomics and the facade that restores std's panic isolation and channel hang-up semantics (sim/shim).",
            "DESIGN.md §4 C22, §3"),
}

NOT_APPLICABLE = {
    "C06": "needs an independent encrypting/decrypting implementation (qpdf); none on the image; no schedule/clock/fault in the statement beyond C05",
    "C07": "decode_stream is a pure function of in-memory arguments; nothing to schedule or fault",
    "C08": "decode_stream_with_limit is a pure function; the limit is an argument, not a resource the simulator could exhaust",
    "C09": "serializer/lexer agreement is a pure function of the object tree; the I/O between them is covered by C02/C03",
    "C10": "text-string encoding/decoding is a pure function of the supplied string",
    "C11": "extraction is a pure function of page content and options; only the repeat-run clause touches hash seeds",
    "C12": "subset_font(Vec<u8>, &HashSet<char>) is pure",
    "C13": "pure function of font bytes and strings; needs an independent extractor/font parser not on the image",
    "C14": "HybridChunker::chunk is a pure function of its arguments",
    "C15": "pure pipeline over a parsed document; identifiers are content hashes",
    "C16": "path-based operations on the real filesystem for which no seam exists; the statement itself is a pure function of the input document",
    "C18": "page-tree traversal/inheritance is a pure function of the parsed object graph (termination on cycles is exercised by C01)",
    "C21": "serialize_ops / ContentParser::parse is a pure function pair; no seam",
    "C23": "RC4/AES/KDF are pure functions of key, IV, data, password",
    "C24": "PNG decoding is a pure function of the file bytes; needs an independent decoder as oracle",
    "C25": "finite tables; calls for exhaustive comparison (enumeration), no fault or schedule dimension",
    "C26": "CMap::parse/lookup and the ToUnicode builder are pure",
    "C27": "label formatting is a pure function of (style, prefix, start, index)",
    "C28": "outline link/count emission is a pure function of the outline tree",
    "C30": "name escaping is a pure function of the name; the structural consequence is caught by C03's validator",
}

# properties designed as claimable but whose check is not built yet are listed as not claimed (yet)
PENDING = {
    "C01": "claimed in DESIGN.md; check not yet built in this commit",
    "C02": "claimed in DESIGN.md (transport part); check not yet built in this commit",
    "C03": "claimed in DESIGN.md; check not yet built in this commit",
    "C04": "claimed in DESIGN.md; check not yet built in this commit",
    "C05": "claimed in DESIGN.md; check not yet built in this commit",
    "C17": "claimed in DESIGN.md; check not yet built in this commit",
    "C19": "claimed in DESIGN.md; check not yet built in this commit",
    "C20": "claimed in DESIGN.md; check not yet built in this commit",
    "C22": "claimed in DESIGN.md; check not yet built in this commit",
}

BUILT = os.environ.get("VERIF_BUILT", "").split(",") if os.environ.get("VERIF_BUILT") else None


def main():
    built_file = os.path.join(ROOT, "bin", "built_checks.txt")
    built = [l.strip() for l in open(built_file) if l.strip() and not l.startswith("#")]
    checks = []
    for pid in sorted(built):
        level, tech, text, note, ref = CLAIMED[pid]
        checks.append({
            "property_id": pid,
            "quick_cmd": f"bin/check {pid} quick",
            "thorough_cmd": f"bin/check {pid} thorough",
            "evidence_file": f"/verif/evidence/{pid}.json",
            "replay_cmd_template": "bin/replay {path}",
            "engine": "simcheck",
            "level_claimed": {"category": level, "text": text, "design_ref": ref},
            "level_note": note,
            "technique": tech,
        })
    na = [{"property_id": k, "reason": v} for k, v in sorted(NOT_APPLICABLE.items())]
    for k, v in sorted(PENDING.items()):
        if k not in built:
            na.append({"property_id": k, "reason": v})
    baseline = "cd /repo && cargo nextest run --workspace --no-fail-fast --test-threads 8 --offline"
    m = {
        "version": 1,
        "setup_cmd": "bin/build",
        "hooks": {
            "guard": "--cfg oxidize_pdf_verif",
            "enable": "RUSTFLAGS='--cfg oxidize_pdf_verif' via /verif/sim/.cargo/config.toml; the shadow manifest /verif/sim/shadow/Cargo.toml (generated by bin/gen_shadow.py) compiles /repo/oxidize-pdf-core/src/lib.rs in place and adds the verif_shim dependency",
            "baseline_off_cmd": baseline,
            "source_commits": ["d97bac49", "2fe6b2ec"],
            "add_only": True,
        },
        "engines": [
            {"name": "simcheck", "path": "sim/simcheck", "serves_properties": sorted(built),
             "kind_free_text": "deterministic simulator: seeded PRNG decides workload, fault plan, entropy, clock and schedule; SimDisk byte source/sink + LD_PRELOAD entropy/clock/pid seams (sim/libsim) + shuttle scheduler through a std-shaped facade (sim/shim)"},
        ],
        "checks": checks,
        "not_applicable": sorted(na, key=lambda x: x["property_id"]),
        "notes": "All checks go through bin/check, which rebuilds the simulator against /repo's working tree. Exit 0 held / 1 VIOLATION / 2 harness error. Known findings: known_findings.jsonl.",
    }
    json.dump(m, open(os.path.join(ROOT, "MANIFEST.json"), "w"), indent=1)
    print("MANIFEST.json written:", len(checks), "checks,", len(na), "not claimed")


if __name__ == "__main__":
    main()
