#!/bin/bash
# bin/recheck_suite.sh <worktree> <seeddir>: re-run, on a quiet machine, the stable tests that failed
# during the loaded whole-suite run with the seeded change applied.
WT="$1"; SD="$2"
cd "$WT" || exit 2
NAMES=$(python3 - "$SD" <<'PY'
import json,sys
j=json.load(open(sys.argv[1]+'/suite_with.json'))
print(' '.join(sorted(set(t.split('::')[-1] for t in j['stable_now_failing']))))
PY
)
[ -z "$NAMES" ] && { echo "RECHECK $SD nothing-to-recheck"; exit 0; }
git checkout -q -- oxidize-pdf-core/src; git apply "$SD/patch.diff" || exit 2
cargo nextest run --workspace --no-fail-fast --test-threads 4 --offline $NAMES > "$SD/suite_recheck.log" 2>&1
git checkout -q -- oxidize-pdf-core/src
python3 - "$SD" <<'PY'
import json,re,sys
sd=sys.argv[1]
j=json.load(open(sd+'/suite_with.json')); want=set(j['stable_now_failing'])
res={}
for l in open(sd+'/suite_recheck.log'):
    m=re.match(r'\s+(FAIL|SIGABRT|SIGSEGV|TIMEOUT|LEAK|PASS)\s+\[.*?\]\s+\(.*?\)\s+(\S+)\s+(\S+)',l)
    if m: res[m.group(2)+'::'+m.group(3)]=m.group(1)
still=[t for t in want if res.get(t)!='PASS']
j['rechecked_quiet']={'passed':[t for t in want if res.get(t)=='PASS'],'still_failing':still}
json.dump(j,open(sd+'/suite_with.json','w'))
print("RECHECK",sd,"passed",len(want)-len(still),"still_failing",still)
PY
