#!/bin/bash
# bin/recheck_suite_fast.sh <worktree> <seeddir>: as recheck_suite.sh, but builds only the test binaries
# that contain the stable tests which failed during the loaded whole-suite run.
WT="$1"; SD="$2"
cd "$WT" || exit 2
ARGS=$(python3 - "$SD" <<'PY'
import json,re,sys
sd=sys.argv[1]
j=json.load(open(sd+'/suite_with.json')); want=set(j['stable_now_failing'])
bins=set(); names=set(); lib=False
for l in open(sd+'/suite_with.log', errors='replace'):
    m=re.match(r'\s+(FAIL|SIGABRT|SIGSEGV|TIMEOUT|LEAK)\s+\[.*?\]\s+\(.*?\)\s+(\S+)\s+(\S+)',l)
    if m and m.group(2)+'::'+m.group(3) in want:
        b=m.group(2); names.add(m.group(3).split('::')[-1])
        if '::' in b: bins.add((b.split('::')[0], b.split('::')[1]))
        else: lib=True; bins.add((b,None))
pk=sorted(set(p for p,_ in bins))
out=[]
for p in pk: out += ['-p',p]
if lib: out.append('--lib')
for p,t in sorted(bins, key=lambda x:(x[0], x[1] or "")):
    if t: out += ['--test',t]
print(' '.join(out)+' -- '+' '.join(sorted(names)) if names else '')
PY
)
[ -z "$ARGS" ] && { echo "RECHECK $SD nothing-to-recheck"; exit 0; }
git checkout -q -- oxidize-pdf-core/src; git apply "$SD/patch.diff" || exit 2
cargo nextest run --no-fail-fast --test-threads 4 --offline ${ARGS%% -- *} ${ARGS##* -- } > "$SD/suite_recheck.log" 2>&1
git checkout -q -- oxidize-pdf-core/src
python3 - "$SD" <<'PY'
import json,re,sys
sd=sys.argv[1]
j=json.load(open(sd+'/suite_with.json')); want=set(j['stable_now_failing'])
res={}
for l in open(sd+'/suite_recheck.log', errors='replace'):
    m=re.match(r'\s+(FAIL|SIGABRT|SIGSEGV|TIMEOUT|LEAK|PASS)\s+\[.*?\]\s+\(.*?\)\s+(\S+)\s+(\S+)',l)
    if m: res[m.group(2)+'::'+m.group(3)]=m.group(1)
still=[t for t in want if res.get(t)!='PASS']
j['rechecked_quiet']={'passed':[t for t in want if res.get(t)=='PASS'],'still_failing':still}
json.dump(j,open(sd+'/suite_with.json','w'))
print("RECHECK",sd,"passed",len(want)-len(still),"still_failing",still)
PY
