#!/bin/bash
# bin/suite_with_seed.sh <worktree> <seeddir>: run the repository's whole test-suite in the scratch
# worktree with the seeded change applied; list tests that fail and are in the stable baseline.
WT="$1"; SD="$2"
cd "$WT" || exit 2
git checkout -q -- oxidize-pdf-core/src
git apply "$SD/patch.diff" || { echo "SUITE $SD patch-does-not-apply"; exit 0; }
cargo nextest run --workspace --no-fail-fast --test-threads 6 --offline > "$SD/suite_with.log" 2>&1
git checkout -q -- oxidize-pdf-core/src
python3 - "$SD" <<'PY'
import json,re,sys
sd=sys.argv[1]
b=json.load(open('/root/.vp/BASELINE.json')); stable=set(b['stable_pass'])
fails=set(); n=0
for l in open(sd+'/suite_with.log'):
    m=re.match(r'\s+(FAIL|SIGABRT|SIGSEGV|TIMEOUT|LEAK|PASS)\s+\[.*?\]\s+\(.*?\)\s+(\S+)\s+(\S+)',l)
    if m:
        n+=1
        if m.group(1)!='PASS': fails.add(m.group(2)+'::'+m.group(3))
bad=sorted(fails&stable)
print("SUITE",sd,"tests_seen",n,"stable_now_failing",len(bad),bad[:5])
json.dump({"tests_seen":n,"stable_now_failing":bad},open(sd+'/suite_with.json','w'))
PY
