#!/usr/bin/env python3
"""Copies confirmed seeded changes from the sub-agents' scratch worktrees into /verif/seeded/<id>/ and
writes meta.json for each (what it breaks, what it needs to manifest, what was run, which check
catches it)."""
import json, os, shutil, sys

META = {
 "C01-1": dict(property="C01", breaks="reader never runs unboundedly long: the classic xref entry loop skips blank lines before its EOF check and spins forever at EOF",
   needs="EOF reached while an xref subsection still has entries outstanding and no bare `trailer` line follows (e.g. trailer on one line with its dictionary and a subsection count larger than the entries present)",
   caught_by="C01 (class unbounded-io-steps)", first_run="caught"),
 "C01-2": dict(property="C01", breaks="reader never panics: PNG predictor bytes-per-pixel computed with /8 instead of div_ceil(8); Sub/Average/Paeth rows index out of bounds for pixels narrower than a byte",
   needs="a Flate/LZW stream with /Predictor 10-15, BitsPerComponent x Colors < 8, a row of PNG filter type 1, 3 or 4, and a decoded length that is a multiple of the row size",
   caught_by="C01 (class panic@filters.rs:19xx)", first_run="MISSED; caught after the corpus gained streams whose payload really is predictor-encoded for its parameters (c01.rs build_filters)"),
 "C02-1": dict(property="C02", breaks="same images: image XObjects shared across pages by a (name, width, height, data length) fingerprint, so a later page shows the first page's image",
   needs="two pages registering different images under the same resource name with the same geometry and data length",
   caught_by="C02 (class authored-vs-readback:image-differs)", first_run="MISSED; caught after the generator let image resource names and geometry repeat across pages and C02 compared the read-back images with what the program authored"),
 "C02-2": dict(property="C02", breaks="same operators with the same operands: save_state() snapshots the fill colour into the stroke slot, so the first stroke after a restore uses the wrong colour",
   needs="fill colour != stroke colour at save_state(), a restore_state() (explicit or via draw_image), then a stroke without re-setting the stroke colour",
   caught_by="C02 (class authored-vs-readback:paint-state-differs)", first_run="MISSED; caught after C02 gained a graphics-state reference model (paint.rs) and the generator a stroke-with-current-state call"),
 "C03-1": dict(property="C03", breaks="structural validity: the second object stream reuses the first one's object number; compressed entries point into the wrong stream",
   needs="object streams on, unencrypted, more than 100 compressible objects (about 98+ pages)",
   caught_by="C03 (class independent-checker:object-syntax: object recorded at index i of object stream N holds another object)", first_run="MISSED; caught after the generator produced 100-260 page programs in 1 of 25 cases"),
 "C03-2": dict(property="C03", breaks="/Size exact and every object has an entry: the xref stream omits the entry for itself and /Size is one too small",
   needs="the xref stream being the highest-numbered object (xref streams without object streams, or encrypted documents)",
   caught_by="C03 (class independent-checker:object-syntax: cross-reference stream object has no entry for itself)", first_run="MISSED; caught after refpdf checked that a cross-reference stream has an entry pointing at itself and is below /Size"),
 "C04-1": dict(property="C04", breaks="a freed object reads as null: the supplementary header scan (lenient presets) overwrites free entries with the last physical body",
   needs="a history that frees a plain object, opened under tolerant/skip_errors (the presets that run the scan)",
   caught_by="C04 (class freed-object-not-null)", first_run="caught"),
 "C04-2": dict(property="C04", breaks="newest revision wins: loading an object stream pre-publishes all its members to the object cache without consulting the xref, shadowing later redefinitions / frees",
   needs="base puts X and Y in one object stream, a later revision redefines or frees X, and Y (or the page tree) is resolved before X",
   caught_by="C04 (classes freed-object-not-null, stale-or-wrong-object)", first_run="caught"),
 "C05-1": dict(property="C05", breaks="unlocking with the owner password: password padding backs up to a UTF-8 boundary in one copy of the code but not in the reader's owner path",
   needs="RC4-40/128 or AES-128, owner password non-ASCII, longer than 32 bytes, with a multi-byte character straddling byte 32",
   caught_by="C05 (class owner-password:unreadable)", first_run="MISSED; caught after the password generator gained >32-byte non-ASCII passwords straddling byte 32 (and exactly-32/33-byte ones)"),
 "C05-2": dict(property="C05", breaks="strings and metadata read back: empty strings are left unencrypted under AES, and the reader fails the whole object on them",
   needs="AES-128/256 and a document containing an empty string (empty /Subject, annotation contents or field value)",
   caught_by="C05 (classes user-password:metadata-differs / annotation-differs / field-differs)", first_run="MISSED; caught after the generator produced empty strings"),
 "C17-1": dict(property="C17", breaks="valid chain of revisions / latest value: the merged xref table reports the OLDEST section's offset, so the next incremental edit chains its /Prev past the intermediate revisions and earlier edits revert",
   needs="a history of at least two edits through IncrementalFormFiller / IncrementalTextNoteEditor where the second does not rewrite what the first did",
   caught_by="C17 (class independent-reader:no-new-revision)", first_run="caught"),
 "C17-2": dict(property="C17", breaks="output begins with the previous file's bytes: page replacement copies the base with write() instead of write_all() and continues from the short count",
   needs="a sink that accepts only part of a large buffer (pipe, socket, custom Write)",
   caught_by="C17 (class not-append-only)", first_run="caught (the page-replacement edit writes through a shortening SimSink)"),
 "C19-1": dict(property="C19", breaks="faithful reconstruction: an unparseable xref entry line no longer consumes an object number, shifting every later entry of the subsection",
   needs="one junk entry that is not the last of its subsection, opened under tolerant / skip_errors (where HEAD fills the gap from the header scan)",
   caught_by="C19 (classes accepted-damaged-xref:CorruptEntry0:tolerant / :skip_errors)", first_run="MASKED by the then single coarse known-finding class accepted-damaged-xref:*; caught after the class was keyed by damage kind and preset, so that combinations which are faithful today stay checkable"),
 "C19-2": dict(property="C19", breaks="faithful reconstruction: off-by-one in the xref-vs-/Size check accepts a table whose subsection start is shifted by exactly +1",
   needs="classic table, subsection start shifted up by one",
   caught_by="C19 (classes accepted-damaged-xref:Subsection:<preset>)", first_run="MASKED likewise; caught after the same refinement"),
 "C20-1": dict(property="C20", breaks="serialising the same document twice: /Info is written before the catalog creates the AcroForm, so the feature fingerprint differs between the first and the second write of the same Document value",
   needs="form fields through set_form_manager, the SAME Document value serialised twice",
   caught_by="C20 (class same-document-value-serialises-differently-the-second-time)", first_run="MISSED (every serialisation built a fresh Document); caught after C20 also wrote one Document value twice"),
 "C20-2": dict(property="C20", breaks="identical bytes: colour-space resources no longer sorted before object ids are allocated, so ICC profile streams are numbered in HashMap order",
   needs="one page with two or more ICC-based colour spaces; comparison between separately built documents",
   caught_by="C20 (class output-depends-on-entropy)", first_run="MISSED (no ICC colour spaces generated); caught after the generator registered 2-5 ICC spaces on a page"),
 "C22-1": dict(property="C22", breaks="stop-on-error: the cancel-flag store moved inside the panic-catching closure, so a job that fails by panicking never sets it",
   needs="stop_on_error, the first failing job panics, at least one job after it",
   caught_by="C22 (class O5a-ran-after-failure-on-same-worker)", first_run="caught"),
 "C22-2": dict(property="C22", breaks="progress counters end consistent: running_jobs decremented by load + store instead of one atomic fetch_sub, so concurrent completions lose a decrement",
   needs="two workers finishing at overlapping instants",
   caught_by="C22 (class O3-progress-counters, with the interleaving in the replay file)", first_run="caught"),
 "C29-1": dict(property="C29", breaks="capacity bound and LRU eviction under concurrency: ObjectCache::get looks up under the read lock and touches under the write lock; an eviction in between leaves a ghost in the order queue",
   needs="get(k) overlapping a put that evicts k",
   caught_by="C29 (classes capacity-exceeded, not-linearizable)", first_run="caught"),
 "C29-2": dict(property="C29", breaks="the evicted entry is the least recently used: promote() uses swap_remove_back, which scrambles the recency order",
   needs="capacity >= 4, a hit on an entry at queue index 1..len-3, then a put of a new key",
   caught_by="C29 (classes seq-mismatch, not-linearizable)", first_run="caught"),
 # ---- third batch (scratch directories SEED/1 and SEED/2 of fresh worktrees; see SRC below)
 "C01-3": dict(property="C01", breaks="reader never panics: ObjectStream::parse_objects adds /First and a header offset in u32 without the overflow check it used to have",
   needs="an object stream whose /First plus a header-table offset reaches 2^32 (e.g. /First 4294967295 and a first offset of 1), resolved through a type-2 xref entry, in a build with overflow checks",
   caught_by="C01 (class panic@object_stream.rs:97)", first_run="MISSED; caught after one case in four became a header-field sweep over small synthetic files with an object stream, synthetic object streams may start their first object above offset 0, and navigation also asks for compressed object numbers"),
 "C01-4": dict(property="C01", breaks="reader terminates within bounded memory: NUL ends names/operators in the content tokenizer but is not skipped as white-space, so the tokenizer returns empty operators forever",
   needs="a content stream with a NUL byte where a token would start",
   caught_by="C01 (class alloc-refused-single)", first_run="caught"),
 "C02-3": dict(property="C02", breaks="same page count / objects: object streams numbered right after the last object, the xref stream gets the number of the second object stream",
   needs="object streams on and more than 100 compressible objects",
   caught_by="C02 (class library-readback:page-count-differs); C03 (independent-checker:object-syntax)", first_run="caught"),
 "C02-4": dict(property="C02", breaks="same operands: an integer fast path for m/l/c/re operands prints the integer part without sign, so -0.5 is written 0.50",
   needs="a path operand strictly between -1 and 0",
   caught_by="C02 (class authored-vs-readback:path-operands-differ)", first_run="MISSED; caught after the paint reference model also carried path geometry and the generator drew one operand in five from the edges of the formatter's domain"),
 "C03-3": dict(property="C03", breaks="type-2 xref entries: the index within the object stream keeps counting across object streams",
   needs="xref stream + object streams, more than 100 compressible objects",
   caught_by="C03 (class independent-checker:object-syntax)", first_run="caught"),
 "C03-4": dict(property="C03", breaks="offsets of an appended section: PdfWriter's incremental writers add an end-of-line after a base that lacks one without counting it",
   needs="an incremental call on a base ending exactly at %%EOF",
   caught_by="C17 (class independent-reader:chain-invalid), with patch_on_688ca401.diff (the same defect re-created on top of the genuine fix the investigation led to)", first_run="MISSED by C03 (which writes no incremental files) and by C17 (bases always ended with an end-of-line); caught after C17's bases gained legal tail variants"),
 "C05-3": dict(property="C05", breaks="owner password unlocks: AES-256 passwords truncated to 127 bytes in seven of eight R5 functions (/UE still hashes the full password)",
   needs="AES-256, user password of 128 bytes or more, opened with the owner password",
   caught_by="C05 (class owner-password:unreadable)", first_run="MISSED; caught after password lengths around 127 bytes were generated"),
 "C05-4": dict(property="C05", breaks="annotation text reads back: every /Contents string is exempted from encryption by key name while the reader decrypts all strings",
   needs="an encrypted document with an annotation that has text",
   caught_by="C05 (class user-password:annotation-differs)", first_run="caught"),
 "C20-3": dict(property="C20", breaks="same Document value serialises identically twice: write_catalog appends form-manager field references without the already-present guard",
   needs="fields owned by a FormManager, widgets linked by reference, the same Document written twice",
   caught_by="C20 (class same-document-value-serialises-differently-the-second-time)", first_run="caught"),
 "C20-4": dict(property="C20", breaks="output independent of hash seeds: ICC colour spaces are given object ids in HashMap iteration order",
   needs="two or more ICC colour spaces on a page",
   caught_by="C20 (class output-depends-on-entropy)", first_run="caught"),
}

# third-batch ids live in SEED/1, SEED/2 of worktrees named like the first batch's
SRC = {f"{p}-{n + 2}": f"/tmp/wt-{p}/SEED/{n}" for p in ("C01", "C02", "C03", "C05", "C20") for n in (1, 2)}

def main():
    out_root = "/verif/seeded"
    for sid, m in META.items():
        prop, n = sid.split("-")
        dst = os.path.join(out_root, sid)
        if sid not in SRC and os.path.isdir(dst):
            continue  # collected earlier; its scratch directory has been reused since
        src = SRC.get(sid, f"/tmp/wt-{prop}/SEED/{n}")
        if not os.path.isdir(src):
            continue
        os.makedirs(dst, exist_ok=True)
        for f in ("patch.diff", "patch_on_688ca401.diff", "demo_test.rs", "notes.md"):
            if os.path.exists(os.path.join(src, f)):
                shutil.copy(os.path.join(src, f), os.path.join(dst, f))
        suite = {}
        if os.path.exists(os.path.join(src, "suite_with.json")):
            suite = json.load(open(os.path.join(src, "suite_with.json")))
        meta = dict(m)
        meta["id"] = sid
        meta["written_by"] = "sub-agent that saw only the property text and a scratch worktree of /repo"
        meta["what_i_ran"] = {
            "demonstration": "bin/verify_seed.sh <worktree> <seeddir>: demo test passes at HEAD (exit 0), fails with the patch (exit 101); patch applies and builds",
            "existing_suite_with_patch": suite or "see DESIGN.md §13",
            "checks": f"bin/eval_seed.sh seeded/{sid}/patch.diff {prop}  (git apply to /repo, registered quick check, git checkout)",
        }
        json.dump(meta, open(os.path.join(dst, "meta.json"), "w"), indent=1, ensure_ascii=False)
        print("collected", sid)

if __name__ == "__main__":
    main()
