#!/bin/bash
# bin/eval_seed.sh <patch.diff> <PROP> [PROP...] : apply a seeded change to /repo, run the registered
# quick checks for the given properties (no evidence rewrite), undo the change. Never commits.
set -u
PATCH="$1"; shift
cd /verif
if ! git -C /repo diff --quiet; then echo "refusing: /repo has uncommitted changes"; exit 2; fi
git -C /repo apply "$PATCH" || { echo "patch does not apply"; exit 2; }
for P in "$@"; do
  echo "=== $P on $(basename "$(dirname "$PATCH")")/$(basename "$PATCH")"
  bin/check "$P" quick --no-evidence 2>&1 | grep -a -E "VIOLATION|class=|HARNESS|violations=" | cut -c1-400 | head -12
done
git -C /repo checkout -- .
rm -f /verif/replay/*.json
