/* libsim.so — seams S4 (entropy), S5 (clocks), S6 (pid) for the deterministic simulator.
 * LD_PRELOADed into simcheck worker processes only. All state is owned by the harness
 * through the exported verif_sim_* functions; until verif_sim_enable(1) is called every
 * interposed function forwards to the real one. */
#define _GNU_SOURCE
#include <dlfcn.h>
#include <errno.h>
#include <stdint.h>
#include <string.h>
#include <sys/types.h>
#include <time.h>
#include <unistd.h>
#include <pthread.h>

static pthread_mutex_t mu = PTHREAD_MUTEX_INITIALIZER;
static int enabled = 0;

/* ---- entropy ---- */
static uint64_t rng_state = 0x9E3779B97F4A7C15ull;
static int entropy_mode = 0; /* 0 seeded, 1 all-zero, 2 all-0xFF */
static uint64_t entropy_bytes = 0;

static uint64_t splitmix(void) {
  uint64_t z = (rng_state += 0x9E3779B97F4A7C15ull);
  z = (z ^ (z >> 30)) * 0xBF58476D1CE4E5B9ull;
  z = (z ^ (z >> 27)) * 0x94D049BB133111EBull;
  return z ^ (z >> 31);
}

/* ---- clock ---- */
static int64_t clk_base_ns = 1700000000ll * 1000000000ll; /* 2023-11-14T22:13:20Z */
static int64_t clk_now_ns = 1700000000ll * 1000000000ll;
static int64_t clk_step_ns = 0;    /* advance per call */
static uint64_t clk_calls = 0;
static uint64_t clk_jump_at = 0;   /* 0 = never; else at the n-th call (1-based) */
static int64_t clk_jump_ns = 0;
static uint64_t clk_jumps_fired = 0;

typedef int (*clock_gettime_fn)(clockid_t, struct timespec *);
typedef ssize_t (*getrandom_fn)(void *, size_t, unsigned int);
typedef pid_t (*getpid_fn)(void);

static clock_gettime_fn real_clock_gettime = 0;
static getrandom_fn real_getrandom = 0;
static getpid_fn real_getpid = 0;

static void resolve(void) {
  if (!real_clock_gettime) real_clock_gettime = (clock_gettime_fn)dlsym(RTLD_NEXT, "clock_gettime");
  if (!real_getrandom) real_getrandom = (getrandom_fn)dlsym(RTLD_NEXT, "getrandom");
  if (!real_getpid) real_getpid = (getpid_fn)dlsym(RTLD_NEXT, "getpid");
}

void verif_sim_enable(int on) { pthread_mutex_lock(&mu); enabled = on; pthread_mutex_unlock(&mu); }

void verif_sim_reseed(uint64_t seed) {
  pthread_mutex_lock(&mu);
  rng_state = seed ^ 0xD1B54A32D192ED03ull;
  entropy_bytes = 0;
  pthread_mutex_unlock(&mu);
}
void verif_sim_entropy_mode(int mode) { pthread_mutex_lock(&mu); entropy_mode = mode; pthread_mutex_unlock(&mu); }
uint64_t verif_sim_entropy_bytes(void) { return entropy_bytes; }

/* mode: step_ns per call (0 = fixed); jump_at = n-th call at which jump_ns is added (0 = none) */
void verif_sim_clock_set(int64_t base_ns, int64_t step_ns, uint64_t jump_at, int64_t jump_ns) {
  pthread_mutex_lock(&mu);
  clk_base_ns = base_ns; clk_now_ns = base_ns; clk_step_ns = step_ns;
  clk_calls = 0; clk_jump_at = jump_at; clk_jump_ns = jump_ns; clk_jumps_fired = 0;
  pthread_mutex_unlock(&mu);
}
uint64_t verif_sim_clock_calls(void) { return clk_calls; }
uint64_t verif_sim_clock_jumps(void) { return clk_jumps_fired; }
int64_t verif_sim_clock_elapsed_ns(void) { return clk_now_ns - clk_base_ns; }

ssize_t getrandom(void *buf, size_t len, unsigned int flags) {
  resolve();
  pthread_mutex_lock(&mu);
  if (!enabled) {
    pthread_mutex_unlock(&mu);
    if (real_getrandom) return real_getrandom(buf, len, flags);
    errno = ENOSYS; return -1;
  }
  unsigned char *p = (unsigned char *)buf;
  if (entropy_mode == 1) memset(p, 0, len);
  else if (entropy_mode == 2) memset(p, 0xFF, len);
  else {
    size_t i = 0;
    while (i < len) {
      uint64_t r = splitmix();
      size_t n = len - i < 8 ? len - i : 8;
      memcpy(p + i, &r, n);
      i += n;
    }
  }
  entropy_bytes += len;
  pthread_mutex_unlock(&mu);
  return (ssize_t)len;
}

int getentropy(void *buf, size_t len) {
  if (len > 256) { errno = EIO; return -1; }
  return getrandom(buf, len, 0) == (ssize_t)len ? 0 : -1;
}

int clock_gettime(clockid_t id, struct timespec *ts) {
  resolve();
  if (id != CLOCK_REALTIME && id != CLOCK_MONOTONIC) return real_clock_gettime(id, ts);
  pthread_mutex_lock(&mu);
  if (!enabled) { pthread_mutex_unlock(&mu); return real_clock_gettime(id, ts); }
  clk_calls++;
  clk_now_ns += clk_step_ns;
  if (clk_jump_at && clk_calls == clk_jump_at) { clk_now_ns += clk_jump_ns; clk_jumps_fired++; }
  int64_t t = clk_now_ns;
  pthread_mutex_unlock(&mu);
  ts->tv_sec = t / 1000000000ll;
  ts->tv_nsec = t % 1000000000ll;
  return 0;
}

pid_t getpid(void) {
  resolve();
  if (!enabled) return real_getpid();
  return 4242;
}
