//! C19 — damaged cross-reference data is reconstructed faithfully.
//! For every file the whole single-damage catalogue (plus sampled pairs) is applied to the stored
//! image; the damaged image opened with recovery enabled must give the same catalog, page count
//! and per-object values as the intact image opened the same way.

use crate::common::*;
use crate::damage::*;
use crate::disk::*;
use crate::gen::*;
use crate::runner::*;
use crate::simdisk::*;
use crate::simseam::ProcEnv;
use crate::synth::*;
use oxidize_pdf::parser::PdfReader;
use oxidize_pdf::writer::PdfWriter;
use serde::{Deserialize, Serialize};
use serde_json::Value;
use std::sync::Arc;

pub struct C19;

#[derive(Clone, Debug, Serialize, Deserialize)]
pub enum FileSrc {
    Synth(SynthSpec),
    /// written by the library itself (classic xref), compression on/off
    Lib { program: Program, compress: bool },
}

#[derive(Clone, Debug, Serialize, Deserialize)]
pub struct Case {
    pub file: FileSrc,
    pub preset: String,
    pub source: SourcePlan,
    /// None = the whole catalogue (seeded by `catalogue_seed`) + `pairs` sampled ordered pairs
    pub damages: Option<Vec<Vec<Damage>>>,
    pub catalogue_seed: u64,
    pub pairs: usize,
    pub entropy_seed: u64,
}

fn gen_case(cs: u64, tier: Tier) -> Case {
    let mut r = Rng::new(cs);
    let file = if r.chance(1, 2) {
        FileSrc::Synth(gen_spec(&mut r, &GenOpts { max_updates: 0, allow_objstm: false, allow_xref_stream: false, allow_free: false }))
    } else {
        FileSrc::Lib { program: {
            let big = r.chance(1, 5);
            gen_program(&mut r, &GenProgOpts { max_pages: 3, tricky_text: false, images: true, big_images: big, rich: false, tricky_names: false })
        }, compress: r.chance(1, 2) }
    };
    let source = if r.chance(1, 3) { gen_source_plan(&mut r, 1, 60, 4096) } else { SourcePlan::default() };
    Case {
        file,
        preset: r.pick(&["default", "tolerant", "skip_errors"]).to_string(),
        source,
        damages: None,
        catalogue_seed: r.next_u64(),
        pairs: if tier == Tier::Quick { 12 } else { 40 },
        entropy_seed: r.next_u64(),
    }
}

pub fn make_image(f: &FileSrc) -> Result<Vec<u8>, String> {
    match f {
        FileSrc::Synth(s) => Ok(build(s).bytes),
        FileSrc::Lib { program, compress } => {
            let mut doc = build_document(program)?;
            let mut buf = Vec::new();
            let mut w = PdfWriter::with_config(&mut buf, WCfg::classic(*compress).to_config());
            w.write_document(&mut doc).map_err(|e| format!("write_document: {}", e))?;
            drop(w);
            Ok(buf)
        }
    }
}

#[derive(Clone, Debug, PartialEq)]
pub struct View {
    /// did the reader enter cross-reference recovery (observed through its own tracing event)?
    pub recovered: bool,
    pub catalog: String,
    pub pages: String,
    pub objects: Vec<(u32, String)>,
}

/// What opening `image` yields: catalog, page count and every object's value.
fn view(image: Arc<Vec<u8>>, preset_name: &str, plan: &SourcePlan, objs: &[(u32, u16)], out: &mut Outcome) -> Result<View, String> {
    let (src, stats) = SimSource::new(image, plan.clone());
    crate::trace::install();
    let rec0 = crate::trace::recovery_count();
    let r = (|| {
        let mut rd = PdfReader::new_with_options(src, preset(preset_name)).map_err(|e| format!("open: {}", e))?;
        let catalog = match rd.catalog() {
            Ok(d) => {
                let mut s = String::new();
                render_dict(d, &mut s);
                s
            }
            Err(e) => format!("ERR({})", e),
        };
        let pages = match rd.page_count() {
            Ok(n) => n.to_string(),
            Err(e) => format!("ERR({})", e),
        };
        let mut objects = vec![];
        for (n, g) in objs {
            let s = match rd.get_object(*n, *g) {
                Ok(o) => rendered(o),
                Err(e) => format!("ERR({})", e),
            };
            objects.push((*n, s));
        }
        Ok(View { recovered: false, catalog, pages, objects })
    })()
    .map(|mut v: View| {
        v.recovered = crate::trace::recovery_count() > rec0;
        v
    })
    .map_err(|e: String| if crate::trace::recovery_count() > rec0 { format!("[after recovery] {}", e) } else { e });
    let st = stats.lock().unwrap().clone();
    bump_io(out, "src_", &st);
    out.log_digest = mix(out.log_digest, st.log);
    r
}

/// In-use object numbers and generations of the intact file, read from its (intact) table by the
/// harness's own locator.
fn intact_objects(img: &[u8]) -> Option<Vec<(u32, u16)>> {
    let loc = locate(img)?;
    let (s, e) = loc.subsection_line;
    let t = std::str::from_utf8(&img[s..e]).ok()?;
    let start: u32 = t.split_whitespace().next()?.parse().ok()?;
    let mut v = vec![];
    for (i, ent) in loc.entries.iter().enumerate() {
        if ent.2 {
            let line = std::str::from_utf8(&img[ent.0..ent.1]).ok()?;
            let g: u16 = line.split_whitespace().nth(1)?.parse().ok()?;
            v.push((start + i as u32, g));
        }
    }
    Some(v)
}

fn exec_inner(c: &Case, out: &mut Outcome) {
    let img = match make_image(&c.file) {
        Ok(i) => i,
        Err(e) => {
            out.bump("skipped.unbuildable_program", 1);
            let _ = e;
            return;
        }
    };
    let objs = match intact_objects(&img) {
        Some(o) => o,
        None => {
            out.violate("harness-cannot-locate-xref", "intact file's classic xref table not found by the harness locator".into());
            return;
        }
    };
    let loc = locate(&img).unwrap();
    out.bump("file_bytes", img.len() as u64);
    out.bump("probe.file_larger_than_scan_chunk_64k", (img.len() > 65536) as u64);
    out.bump("probe.file_larger_than_bufreader_8k", (img.len() > 8192) as u64);
    if let FileSrc::Synth(sp) = &c.file {
        if let Some((_, b, _)) = sp.straddle {
            out.bump("probe.header_straddles_64k_chunk_boundary", (b % 65536 == 0 && img.len() > b) as u64);
            out.bump("probe.header_straddles_8k_buffer_boundary", (b % 65536 != 0 && img.len() > b) as u64);
        }
    }
    let intact = match view(Arc::new(img.clone()), &c.preset, &SourcePlan::default(), &objs, out) {
        Ok(v) => v,
        Err(e) => {
            out.violate("intact-file-does-not-open", format!("undamaged file fails to open under {}: {}", c.preset, e));
            return;
        }
    };
    if intact.pages.starts_with("ERR") || intact.catalog.starts_with("ERR") || intact.objects.iter().any(|(_, s)| s.starts_with("ERR")) {
        out.bump("skipped.intact_reference_has_errors", 1);
        return;
    }
    let damages: Vec<Vec<Damage>> = match &c.damages {
        Some(d) => d.clone(),
        None => {
            let mut r = Rng::new(c.catalogue_seed);
            let n_in_use = loc.entries.iter().filter(|e| e.2).count();
            let cat = catalogue(n_in_use, loc.dict.1 - loc.xref_kw, &mut r);
            let mut all: Vec<Vec<Damage>> = cat.iter().map(|d| vec![d.clone()]).collect();
            for _ in 0..c.pairs {
                let a = cat[r.usize_below(cat.len())].clone();
                let b = cat[r.usize_below(cat.len())].clone();
                all.push(vec![a, b]);
            }
            // every instance is evaluated; the rotation only decides which failing class this file
            // reports first, so that across files every failing class gets reported
            let k = r.usize_below(all.len());
            all.rotate_left(k);
            all
        }
    };
    let mut dg = fnv1a(&img);
    dg = fnv1a_more(dg, c.preset.as_bytes());
    out.digest = dg;
    out.nontrivial = true;
    let kind_name = |d: &Damage| -> String {
        match d {
            Damage::CorruptEntry { how, .. } => format!("CorruptEntry{}", how % 4),
            Damage::StartxrefKeyword(m) => format!("StartxrefKeyword{}", m % 3),
            Damage::StartxrefValue { mode, .. } => format!("StartxrefValue{}", mode % 5),
            Damage::Trailer(m) => format!("Trailer{}", m % 4),
            Damage::ZeroTableBody { with } => format!("ZeroTableBody{}", with),
            other => format!("{:?}", other).split(|ch: char| !ch.is_alphanumeric()).next().unwrap_or("?").to_string(),
        }
    };
    // evaluate one damage list: None = not applicable (no byte changed), Some(None) = faithful,
    // Some(Some((what, message))) = mismatch
    let evaluate = |ds: &[Damage], out: &mut Outcome| -> Option<Option<(String, String)>> {
        let mut bad = img.clone();
        let fired = apply_all(&mut bad, ds);
        if fired == 0 {
            return None;
        }
        let got = view(Arc::new(bad), &c.preset, &c.source, &objs, out);
        let recovered = match &got {
            Ok(v) => v.recovered,
            Err(e) => e.starts_with("[after recovery]"),
        };
        let tag = |w: &str| if recovered { format!("recovered/{}", w) } else { format!("accepted/{}", w) };
        Some(match &got {
            Err(e) => Some((tag("open-failed"), format!("damaged file does not open: {}", e))),
            Ok(v) => {
                if v.catalog != intact.catalog {
                    Some((tag("catalog"), format!("catalog differs: intact {} vs damaged {}", intact.catalog, v.catalog)))
                } else if v.pages != intact.pages {
                    Some((tag("page-count"), format!("page count differs: intact {} vs damaged {}", intact.pages, v.pages)))
                } else {
                    v.objects.iter().zip(intact.objects.iter()).find(|(a, b)| a.1 != b.1).map(|(a, b)| {
                        (
                            tag("object"),
                            format!(
                                "object {} differs: intact {} vs damaged {}",
                                a.0,
                                &b.1.chars().take(160).collect::<String>(),
                                &a.1.chars().take(160).collect::<String>()
                            ),
                        )
                    })
                }
            }
        })
    };
    for ds in &damages {
        let r = match evaluate(ds, out) {
            None => {
                out.bump("damage_noop", 1);
                continue;
            }
            Some(r) => r,
        };
        out.bump("damage_evaluations", 1);
        for d in ds {
            out.bump(&format!("fault.stored.{}", kind_name(d)), 1);
        }
        if ds.len() > 1 {
            out.bump("damage_pairs_evaluated", 1);
        }
        if let Some((what, msg)) = r {
            // a pair that fails is attributed to the first of its members that already fails alone;
            // only when both members are faithful alone is it a class of its own
            let mut culprit: Vec<Damage> = ds.clone();
            let mut cwhat = what.clone();
            let mut cmsg = msg.clone();
            if ds.len() > 1 {
                for d in ds {
                    if let Some(Some((w1, m1))) = evaluate(std::slice::from_ref(d), out) {
                        culprit = vec![d.clone()];
                        cwhat = w1;
                        cmsg = m1;
                        break;
                    }
                }
            }
            // Two families. "accepted/…": the primary parse took the damaged but still syntactically
            // valid cross-reference data at face value and recovery was never entered (one root cause,
            // whatever the damage kind). "recovered/…": recovery ran and still was not faithful —
            // keyed by the damage kinds involved.
            let kinds = culprit.iter().map(|d| kind_name(d)).collect::<Vec<_>>().join("+");
            let class = if let Some(w) = cwhat.strip_prefix("accepted/") {
                out.bump(&format!("accepted_by_kind.{}", kinds), 1);
                // keyed by damage kind AND preset: combinations that are reconstructed faithfully
                // today (e.g. a junk entry under `tolerant`, where the supplementary header scan
                // fills the gap) stay checkable
                let _ = w;
                if culprit.len() > 1 {
                    // two simultaneous damages, neither unfaithful alone in this file
                    format!("accepted-damaged-xref:pair:{}", c.preset)
                } else {
                    format!("accepted-damaged-xref:{}:{}", kinds, c.preset)
                }
            } else {
                format!("recovery-unfaithful:{}:{}", kinds, cwhat.trim_start_matches("recovered/"))
            };
            out.bump(&format!("mismatch.{}", class), 1);
            let first_of_class = out.violation.as_ref().map(|v| v.class != class).unwrap_or(true) && !out.more.iter().any(|(v, _)| v.class == class);
            if first_of_class {
                let mut nc = c.clone();
                nc.damages = Some(vec![culprit.clone()]);
                let explicit = serde_json::to_value(&nc).unwrap();
                let detail = format!("damage {:?} under preset {}: {}", culprit, c.preset, cmsg);
                if out.violation.is_none() {
                    out.violate(&class, detail);
                    out.refined = Some(explicit);
                } else {
                    out.more.push((Violation { class: class.clone(), detail }, explicit));
                }
            }
        }
    }
}

impl Property for C19 {
    fn id(&self) -> &'static str {
        "C19"
    }
    fn engine(&self) -> Engine {
        Engine::Disk
    }
    fn cases(&self, tier: Tier) -> u64 {
        match tier {
            Tier::Quick => 2_000,
            Tier::Thorough => 30_000,
        }
    }
    fn gen(&self, cs: u64, tier: Tier, _ctx: &ExecCtx) -> Value {
        serde_json::to_value(gen_case(cs, tier)).unwrap()
    }
    fn exec(&self, case: &Value, ctx: &ExecCtx) -> Outcome {
        let c: Case = match serde_json::from_value(case.clone()) {
            Ok(c) => c,
            Err(e) => {
                let mut o = Outcome::default();
                o.violate("harness-bad-case", e.to_string());
                return o;
            }
        };
        let env = ProcEnv::fixed(c.entropy_seed);
        in_case_thread(ctx, &env, 60_000, move |out| exec_inner(&c, out))
    }
    fn shrink(&self, case: &Value) -> Vec<Value> {
        let c: Case = match serde_json::from_value(case.clone()) {
            Ok(c) => c,
            Err(_) => return vec![],
        };
        let mut v = vec![];
        let push = |n: Case, v: &mut Vec<Value>| v.push(serde_json::to_value(&n).unwrap());
        if !c.source.is_faultless() {
            let mut n = c.clone();
            n.source = SourcePlan::default();
            push(n, &mut v);
        }
        if let Some(ds) = &c.damages {
            if ds.len() == 1 && ds[0].len() > 1 {
                for i in 0..ds[0].len() {
                    let mut n = c.clone();
                    let mut d = ds[0].clone();
                    d.remove(i);
                    n.damages = Some(vec![d]);
                    push(n, &mut v);
                }
            }
        }
        match &c.file {
            FileSrc::Synth(s) => {
                for oi in (0..s.revisions[0].ops.len()).rev() {
                    if matches!(s.revisions[0].ops[oi], ObjOp::Define { kind: Kind::Catalog | Kind::Pages | Kind::Page, .. }) {
                        continue;
                    }
                    let mut n = c.clone();
                    let mut s2 = s.clone();
                    s2.revisions[0].ops.remove(oi);
                    n.file = FileSrc::Synth(s2);
                    push(n, &mut v);
                }
            }
            FileSrc::Lib { program, compress } => {
                for p in shrink_program(program) {
                    let mut n = c.clone();
                    n.file = FileSrc::Lib { program: p, compress: *compress };
                    push(n, &mut v);
                }
                if *compress {
                    let mut n = c.clone();
                    n.file = FileSrc::Lib { program: program.clone(), compress: false };
                    push(n, &mut v);
                }
            }
        }
        v
    }
    fn sample(&self, case: &Value) -> Value {
        truncate_json(case, 160)
    }
    fn describe(&self) -> Describe {
        Describe {
            rule: "case = one valid single-revision file without object streams (harness-synthesised, or written by the library's own writer with classic xref, compression on/off) x one recovery-enabled preset (default/tolerant/skip_errors) x source plan (fault-free or short reads). For the file the COMPLETE single-damage catalogue D1-D12 (about 60-110 instances, entry-indexed ones for up to 12 entries) plus N sampled ordered pairs is applied to the stored image; each damaged image is opened and its catalog, page count and every object value compared with the intact image opened the same way. evaluations = files; damage_evaluations counter = damaged images opened. non-trivial = file whose intact reference is error-free; distinct = digest of (file bytes, preset).".into(),
            assumptions: vec![
                "the intact file opened by the library is the reference, so the check never demands more than the library delivers on an undamaged file".into(),
                "strict preset is excluded: its contract is to refuse damaged files".into(),
                "files are sampled by seed; per file the single-damage catalogue is exhausted, pairs are sampled".into(),
            ],
            real_components: vec!["parser::xref parse_with_options / recovery scan / catalog search".into(), "parser::reader get_object / page tree".into(), "writer::PdfWriter (to produce half of the inputs)".into()],
            stub_components: vec!["byte source: SimSource".into(), "OS entropy / clock / pid: libsim.so".into()],
            fault_kinds: vec!["D1 ShiftAllOffsets".into(), "D2 ShiftOneOffset".into(), "D3 CorruptEntry".into(), "D4 ZeroTableBody".into(), "D5 DeleteTable".into(), "D6 StartxrefKeyword".into(), "D7 StartxrefValue".into(), "D8 TruncateAfterLastEndobj".into(), "D9 Trailer".into(), "D10 SwapEntries".into(), "D11 Subsection".into(), "D12 BitFlip".into(), "src short_read".into()],
            level: "fault_enumeration",
            exhaustive_note: Some("per file the single-damage catalogue is enumerated completely; files and damage pairs are sampled by seed".into()),
        }
    }
}
