//! Observation seam on the library's own `tracing` events (no repo change): a minimal subscriber
//! that counts WARN-level events whose message starts with a known prefix. Used to tell whether
//! the reader entered cross-reference recovery.

use std::sync::atomic::{AtomicU64, Ordering};
use tracing::field::{Field, Visit};
use tracing::span;
use tracing::{Event, Level, Metadata, Subscriber};

pub static RECOVERY_ENTERED: AtomicU64 = AtomicU64::new(0);
pub static WARN_EVENTS: AtomicU64 = AtomicU64::new(0);

struct Counter;

struct MsgVisitor(String);
impl Visit for MsgVisitor {
    fn record_debug(&mut self, field: &Field, value: &dyn std::fmt::Debug) {
        if field.name() == "message" && self.0.is_empty() {
            use std::fmt::Write;
            let _ = write!(self.0, "{:?}", value);
        }
    }
}

impl Subscriber for Counter {
    fn enabled(&self, m: &Metadata<'_>) -> bool {
        *m.level() <= Level::WARN && m.is_event()
    }
    fn new_span(&self, _: &span::Attributes<'_>) -> span::Id {
        span::Id::from_u64(1)
    }
    fn record(&self, _: &span::Id, _: &span::Record<'_>) {}
    fn record_follows_from(&self, _: &span::Id, _: &span::Id) {}
    fn event(&self, e: &Event<'_>) {
        WARN_EVENTS.fetch_add(1, Ordering::Relaxed);
        let mut v = MsgVisitor(String::new());
        e.record(&mut v);
        if v.0.starts_with("Primary XRef parsing failed") {
            RECOVERY_ENTERED.fetch_add(1, Ordering::Relaxed);
        }
    }
    fn enter(&self, _: &span::Id) {}
    fn exit(&self, _: &span::Id) {}
}

pub fn install() {
    static ONCE: std::sync::Once = std::sync::Once::new();
    ONCE.call_once(|| {
        let _ = tracing::subscriber::set_global_default(Counter);
    });
}

pub fn recovery_count() -> u64 {
    RECOVERY_ENTERED.load(Ordering::Relaxed)
}
