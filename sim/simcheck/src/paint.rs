//! A small reference model of the graphics state (colours, line width, q/Q) used by C02: what each
//! painting call of the authoring program should look like (by PDF semantics: a viewer's effective
//! fill colour, stroke colour and line width when the path is painted), and an interpreter that
//! recovers the same from the content stream that was read back.

use crate::gen::{DocOp, Program};
use crate::refpdf::{Obj, P};

#[derive(Clone, Copy, Debug, PartialEq)]
pub struct Col {
    /// 0 gray, 1 rgb, 2 cmyk
    pub space: u8,
    pub c: [f64; 4],
}

impl Col {
    pub fn gray(g: f64) -> Col {
        Col { space: 0, c: [g, 0.0, 0.0, 0.0] }
    }
    pub fn rgb(r: f64, g: f64, b: f64) -> Col {
        Col { space: 1, c: [r, g, b, 0.0] }
    }
    pub fn cmyk(c: f64, m: f64, y: f64, k: f64) -> Col {
        Col { space: 2, c: [c, m, y, k] }
    }
    fn close(&self, o: &Col) -> bool {
        self.space == o.space && self.c.iter().zip(o.c.iter()).all(|(a, b)| (a - b).abs() < 0.002)
    }
}

#[derive(Clone, Copy, Debug, PartialEq)]
pub struct Paint {
    /// 'f' fill, 'S' stroke, 'B' fill+stroke
    pub kind: char,
    pub fill: Col,
    pub stroke: Col,
    pub width: f64,
}

impl Paint {
    pub fn agrees(&self, o: &Paint) -> bool {
        self.kind == o.kind
            && (self.kind == 'S' || self.fill.close(&o.fill))
            && (self.kind == 'f' || (self.stroke.close(&o.stroke) && (self.width - o.width).abs() < 0.002))
    }
}

#[derive(Clone, Copy)]
struct St {
    fill: Col,
    stroke: Col,
    width: f64,
}

/// What the authoring program's painting calls must look like, page by page, in call order.
pub fn expected(p: &Program) -> Vec<Vec<Paint>> {
    let mut pages: Vec<Vec<Paint>> = vec![];
    let init = St { fill: Col::gray(0.0), stroke: Col::gray(0.0), width: 1.0 };
    let mut st = init;
    for op in &p.ops {
        if let DocOp::NewPage { .. } = op {
            pages.push(vec![]);
            st = init; // each page has its own contexts
            continue;
        }
        let cur = match pages.last_mut() {
            Some(c) => c,
            None => continue,
        };
        match op {
            DocOp::Rect { rgb, mode, .. } => {
                st.fill = Col::rgb(rgb[0], rgb[1], rgb[2]);
                st.stroke = Col::rgb(rgb[2], rgb[0], rgb[1]);
                cur.push(Paint { kind: ['f', 'S', 'B'][(*mode % 3) as usize], fill: st.fill, stroke: st.stroke, width: st.width });
            }
            DocOp::Path { gray, width, .. } => {
                st.stroke = Col::gray(*gray);
                st.width = *width;
                cur.push(Paint { kind: 'S', fill: st.fill, stroke: st.stroke, width: st.width });
            }
            DocOp::StrokeOnly { .. } => cur.push(Paint { kind: 'S', fill: st.fill, stroke: st.stroke, width: st.width }),
            DocOp::LineState { width, .. } => st.width = *width,
            DocOp::Transformed { .. } => cur.push(Paint { kind: 'f', fill: st.fill, stroke: st.stroke, width: st.width }),
            DocOp::Circle { cmyk, .. } => {
                st.fill = Col::cmyk(cmyk[0], cmyk[1], cmyk[2], cmyk[3]);
                cur.push(Paint { kind: 'f', fill: st.fill, stroke: st.stroke, width: st.width });
            }
            DocOp::Opacity { .. } => cur.push(Paint { kind: 'B', fill: st.fill, stroke: st.stroke, width: st.width }),
            _ => {}
        }
    }
    pages
}

/// Geometry of one painted path as read back: the path-construction operators with their operands,
/// and the operands of a `cm` issued since the enclosing `q` (if any).
#[derive(Clone, Debug, PartialEq)]
pub struct Geom {
    pub cm: Option<[f64; 6]>,
    pub segs: Vec<(char, Vec<f64>)>,
}

/// What the authoring program says the geometry of a painted path is.
#[derive(Clone, Debug)]
pub enum WantGeom {
    /// exactly these construction operators and operands (up to two-decimal rounding)
    Exact(Geom),
    /// `Graphics::circle(cx, cy, r)`: a closed sequence of Bezier arcs whose on-curve points lie on the circle
    Circle { cx: f64, cy: f64, r: f64 },
}

/// The documented rounding of the writer is two decimals: half a unit in the last place plus float noise.
const TOL: f64 = 0.0062;

impl WantGeom {
    pub fn check(&self, got: &Geom) -> Result<(), String> {
        match self {
            WantGeom::Exact(w) => {
                match (&w.cm, &got.cm) {
                    (Some(a), Some(b)) => {
                        if a.iter().zip(b.iter()).any(|(x, y)| (x - y).abs() > TOL) {
                            return Err(format!("authored transform {:?}, read back {:?}", a, b));
                        }
                    }
                    (None, None) => {}
                    (a, b) => return Err(format!("authored transform {:?}, read back {:?}", a, b)),
                }
                if w.segs.len() != got.segs.len() {
                    return Err(format!("authored path {:?}, read back {:?}", w.segs, got.segs));
                }
                for (a, b) in w.segs.iter().zip(got.segs.iter()) {
                    if a.0 != b.0 || a.1.len() != b.1.len() || a.1.iter().zip(b.1.iter()).any(|(x, y)| (x - y).abs() > TOL) {
                        return Err(format!("authored segment {:?}, read back {:?}", a, b));
                    }
                }
                Ok(())
            }
            WantGeom::Circle { cx, cy, r } => {
                let mut n_on = 0;
                for (i, (k, v)) in got.segs.iter().enumerate() {
                    let pt = match (*k, v.len()) {
                        ('m', 2) if i == 0 => [v[0], v[1]],
                        ('c', 6) if i > 0 => [v[4], v[5]],
                        ('h', 0) if i + 1 == got.segs.len() => continue,
                        _ => return Err(format!("circle({}, {}, {}) read back as {:?}", cx, cy, r, got.segs)),
                    };
                    let d = ((pt[0] - cx).powi(2) + (pt[1] - cy).powi(2)).sqrt();
                    if (d - r).abs() > 0.02 {
                        return Err(format!("circle({}, {}, {}): on-curve point {:?} read back at distance {:.4} from the centre", cx, cy, r, pt, d));
                    }
                    n_on += 1;
                }
                if n_on < 4 {
                    return Err(format!("circle({}, {}, {}) read back with {} on-curve points: {:?}", cx, cy, r, n_on, got.segs));
                }
                // control points stay inside the circumscribed square (kappa < 1)
                for (k, v) in &got.segs {
                    if *k == 'c' {
                        for q in [[v[0], v[1]], [v[2], v[3]]] {
                            if (q[0] - cx).abs() > r + 0.02 || (q[1] - cy).abs() > r + 0.02 {
                                return Err(format!("circle({}, {}, {}): control point {:?} read back outside the bounding square", cx, cy, r, q));
                            }
                        }
                    }
                }
                Ok(())
            }
        }
    }
}

fn exact(cm: Option<[f64; 6]>, segs: Vec<(char, Vec<f64>)>) -> WantGeom {
    WantGeom::Exact(Geom { cm, segs })
}

/// Geometry the program's painting calls must read back with, page by page, in call order (parallel
/// to `expected`).
pub fn expected_geom(p: &Program) -> Vec<Vec<WantGeom>> {
    let mut pages: Vec<Vec<WantGeom>> = vec![];
    for op in &p.ops {
        if let DocOp::NewPage { .. } = op {
            pages.push(vec![]);
            continue;
        }
        let cur = match pages.last_mut() {
            Some(c) => c,
            None => continue,
        };
        match op {
            DocOp::Rect { x, y, w, h, .. } => cur.push(exact(None, vec![('r', vec![*x, *y, *w, *h])])),
            DocOp::Path { pts, curve, close, .. } => {
                let mut segs = vec![('m', vec![pts[0][0], pts[0][1]])];
                if *curve {
                    let mut i = 1;
                    while i + 2 < pts.len() {
                        segs.push(('c', vec![pts[i][0], pts[i][1], pts[i + 1][0], pts[i + 1][1], pts[i + 2][0], pts[i + 2][1]]));
                        i += 3;
                    }
                } else {
                    for q in &pts[1..] {
                        segs.push(('l', vec![q[0], q[1]]));
                    }
                }
                if *close {
                    segs.push(('h', vec![]));
                }
                cur.push(exact(None, segs));
            }
            DocOp::StrokeOnly { pts } => {
                let mut segs = vec![('m', vec![pts[0][0], pts[0][1]])];
                for q in &pts[1..] {
                    segs.push(('l', vec![q[0], q[1]]));
                }
                cur.push(exact(None, segs));
            }
            DocOp::Transformed { m, x, y, w, h } => cur.push(exact(Some(*m), vec![('r', vec![*x, *y, *w, *h])])),
            DocOp::Circle { cx, cy, r, .. } => cur.push(WantGeom::Circle { cx: *cx, cy: *cy, r: *r }),
            DocOp::Opacity { .. } => cur.push(exact(None, vec![('r', vec![10.0, 10.0, 20.0, 20.0])])),
            _ => {}
        }
    }
    pages
}

/// Interpret a content stream: effective (fill, stroke, width) at every path-painting operator.
pub fn interpret(content: &[u8]) -> Result<Vec<Paint>, String> {
    interpret_full(content).map(|v| v.into_iter().map(|(p, _)| p).collect())
}

/// As `interpret`, with the geometry of each painted path.
pub fn interpret_full(content: &[u8]) -> Result<Vec<(Paint, Geom)>, String> {
    let mut out = vec![];
    let mut segs: Vec<(char, Vec<f64>)> = vec![];
    let mut cm: Option<[f64; 6]> = None;
    let mut st = St { fill: Col::gray(0.0), stroke: Col::gray(0.0), width: 1.0 };
    let mut stack: Vec<St> = vec![];
    let mut operands: Vec<f64> = vec![];
    let mut p = P::new(content, 0);
    loop {
        p.skip_ws();
        if p.i >= content.len() {
            break;
        }
        let c = content[p.i];
        if c.is_ascii_alphabetic() || c == b'\'' || c == b'"' {
            let s = p.i;
            while p.i < content.len() && (content[p.i].is_ascii_alphanumeric() || content[p.i] == b'*' || content[p.i] == b'\'' || content[p.i] == b'"') {
                p.i += 1;
            }
            let op = &content[s..p.i];
            let n = operands.len();
            match op {
                b"q" => {
                    stack.push(st);
                    cm = None;
                }
                b"Q" => {
                    if let Some(s) = stack.pop() {
                        st = s;
                    }
                    cm = None;
                }
                b"cm" if n >= 6 => cm = Some([operands[n - 6], operands[n - 5], operands[n - 4], operands[n - 3], operands[n - 2], operands[n - 1]]),
                b"m" => segs.push(('m', operands.clone())),
                b"l" => segs.push(('l', operands.clone())),
                b"c" => segs.push(('c', operands.clone())),
                b"v" => segs.push(('v', operands.clone())),
                b"y" => segs.push(('y', operands.clone())),
                b"re" => segs.push(('r', operands.clone())),
                b"h" => segs.push(('h', vec![])),
                b"n" => segs.clear(),
                b"g" if n >= 1 => st.fill = Col::gray(operands[n - 1]),
                b"G" if n >= 1 => st.stroke = Col::gray(operands[n - 1]),
                b"rg" if n >= 3 => st.fill = Col::rgb(operands[n - 3], operands[n - 2], operands[n - 1]),
                b"RG" if n >= 3 => st.stroke = Col::rgb(operands[n - 3], operands[n - 2], operands[n - 1]),
                b"k" if n >= 4 => st.fill = Col::cmyk(operands[n - 4], operands[n - 3], operands[n - 2], operands[n - 1]),
                b"K" if n >= 4 => st.stroke = Col::cmyk(operands[n - 4], operands[n - 3], operands[n - 2], operands[n - 1]),
                b"w" if n >= 1 => st.width = operands[n - 1],
                b"f" | b"F" | b"f*" => out.push((Paint { kind: 'f', fill: st.fill, stroke: st.stroke, width: st.width }, Geom { cm, segs: std::mem::take(&mut segs) })),
                b"S" | b"s" => out.push((Paint { kind: 'S', fill: st.fill, stroke: st.stroke, width: st.width }, Geom { cm, segs: std::mem::take(&mut segs) })),
                b"B" | b"B*" | b"b" | b"b*" => out.push((Paint { kind: 'B', fill: st.fill, stroke: st.stroke, width: st.width }, Geom { cm, segs: std::mem::take(&mut segs) })),
                b"true" | b"false" | b"null" => {}
                _ => {}
            }
            operands.clear();
        } else {
            match p.object(0) {
                Ok(Obj::Int(i)) => operands.push(i as f64),
                Ok(Obj::Real(r)) => operands.push(r),
                Ok(_) => {}
                Err(e) => return Err(format!("content stream does not tokenize: {}", e)),
            }
        }
    }
    Ok(out)
}
