//! A small reference model of the graphics state (colours, line width, q/Q) used by C02: what each
//! painting call of the authoring program should look like (by PDF semantics: a viewer's effective
//! fill colour, stroke colour and line width when the path is painted), and an interpreter that
//! recovers the same from the content stream that was read back.

use crate::gen::{DocOp, Program};
use crate::refpdf::{Obj, P};

#[derive(Clone, Copy, Debug, PartialEq)]
pub struct Col {
    /// 0 gray, 1 rgb, 2 cmyk
    pub space: u8,
    pub c: [f64; 4],
}

impl Col {
    pub fn gray(g: f64) -> Col {
        Col { space: 0, c: [g, 0.0, 0.0, 0.0] }
    }
    pub fn rgb(r: f64, g: f64, b: f64) -> Col {
        Col { space: 1, c: [r, g, b, 0.0] }
    }
    pub fn cmyk(c: f64, m: f64, y: f64, k: f64) -> Col {
        Col { space: 2, c: [c, m, y, k] }
    }
    fn close(&self, o: &Col) -> bool {
        self.space == o.space && self.c.iter().zip(o.c.iter()).all(|(a, b)| (a - b).abs() < 0.002)
    }
}

#[derive(Clone, Copy, Debug, PartialEq)]
pub struct Paint {
    /// 'f' fill, 'S' stroke, 'B' fill+stroke
    pub kind: char,
    pub fill: Col,
    pub stroke: Col,
    pub width: f64,
}

impl Paint {
    pub fn agrees(&self, o: &Paint) -> bool {
        self.kind == o.kind
            && (self.kind == 'S' || self.fill.close(&o.fill))
            && (self.kind == 'f' || (self.stroke.close(&o.stroke) && (self.width - o.width).abs() < 0.002))
    }
}

#[derive(Clone, Copy)]
struct St {
    fill: Col,
    stroke: Col,
    width: f64,
}

/// What the authoring program's painting calls must look like, page by page, in call order.
pub fn expected(p: &Program) -> Vec<Vec<Paint>> {
    let mut pages: Vec<Vec<Paint>> = vec![];
    let init = St { fill: Col::gray(0.0), stroke: Col::gray(0.0), width: 1.0 };
    let mut st = init;
    for op in &p.ops {
        if let DocOp::NewPage { .. } = op {
            pages.push(vec![]);
            st = init; // each page has its own contexts
            continue;
        }
        let cur = match pages.last_mut() {
            Some(c) => c,
            None => continue,
        };
        match op {
            DocOp::Rect { rgb, mode, .. } => {
                st.fill = Col::rgb(rgb[0], rgb[1], rgb[2]);
                st.stroke = Col::rgb(rgb[2], rgb[0], rgb[1]);
                cur.push(Paint { kind: ['f', 'S', 'B'][(*mode % 3) as usize], fill: st.fill, stroke: st.stroke, width: st.width });
            }
            DocOp::Path { gray, width, .. } => {
                st.stroke = Col::gray(*gray);
                st.width = *width;
                cur.push(Paint { kind: 'S', fill: st.fill, stroke: st.stroke, width: st.width });
            }
            DocOp::StrokeOnly { .. } => cur.push(Paint { kind: 'S', fill: st.fill, stroke: st.stroke, width: st.width }),
            DocOp::LineState { width, .. } => st.width = *width,
            DocOp::Transformed { .. } => cur.push(Paint { kind: 'f', fill: st.fill, stroke: st.stroke, width: st.width }),
            DocOp::Circle { cmyk, .. } => {
                st.fill = Col::cmyk(cmyk[0], cmyk[1], cmyk[2], cmyk[3]);
                cur.push(Paint { kind: 'f', fill: st.fill, stroke: st.stroke, width: st.width });
            }
            DocOp::Opacity { .. } => cur.push(Paint { kind: 'B', fill: st.fill, stroke: st.stroke, width: st.width }),
            _ => {}
        }
    }
    pages
}

/// Interpret a content stream: effective (fill, stroke, width) at every path-painting operator.
pub fn interpret(content: &[u8]) -> Result<Vec<Paint>, String> {
    let mut out = vec![];
    let mut st = St { fill: Col::gray(0.0), stroke: Col::gray(0.0), width: 1.0 };
    let mut stack: Vec<St> = vec![];
    let mut operands: Vec<f64> = vec![];
    let mut p = P::new(content, 0);
    loop {
        p.skip_ws();
        if p.i >= content.len() {
            break;
        }
        let c = content[p.i];
        if c.is_ascii_alphabetic() || c == b'\'' || c == b'"' {
            let s = p.i;
            while p.i < content.len() && (content[p.i].is_ascii_alphanumeric() || content[p.i] == b'*' || content[p.i] == b'\'' || content[p.i] == b'"') {
                p.i += 1;
            }
            let op = &content[s..p.i];
            let n = operands.len();
            match op {
                b"q" => stack.push(st),
                b"Q" => {
                    if let Some(s) = stack.pop() {
                        st = s;
                    }
                }
                b"g" if n >= 1 => st.fill = Col::gray(operands[n - 1]),
                b"G" if n >= 1 => st.stroke = Col::gray(operands[n - 1]),
                b"rg" if n >= 3 => st.fill = Col::rgb(operands[n - 3], operands[n - 2], operands[n - 1]),
                b"RG" if n >= 3 => st.stroke = Col::rgb(operands[n - 3], operands[n - 2], operands[n - 1]),
                b"k" if n >= 4 => st.fill = Col::cmyk(operands[n - 4], operands[n - 3], operands[n - 2], operands[n - 1]),
                b"K" if n >= 4 => st.stroke = Col::cmyk(operands[n - 4], operands[n - 3], operands[n - 2], operands[n - 1]),
                b"w" if n >= 1 => st.width = operands[n - 1],
                b"f" | b"F" | b"f*" => out.push(Paint { kind: 'f', fill: st.fill, stroke: st.stroke, width: st.width }),
                b"S" | b"s" => out.push(Paint { kind: 'S', fill: st.fill, stroke: st.stroke, width: st.width }),
                b"B" | b"B*" | b"b" | b"b*" => out.push(Paint { kind: 'B', fill: st.fill, stroke: st.stroke, width: st.width }),
                b"true" | b"false" | b"null" => {}
                _ => {}
            }
            operands.clear();
        } else {
            match p.object(0) {
                Ok(Obj::Int(i)) => operands.push(i as f64),
                Ok(Obj::Real(r)) => operands.push(r),
                Ok(_) => {}
                Err(e) => return Err(format!("content stream does not tokenize: {}", e)),
            }
        }
    }
    Ok(out)
}
