//! C20 — writing the same document twice gives identical bytes.
//! The same authoring program is serialised under R different OS-entropy streams (fresh thread
//! each => fresh hash-map keys), with the clock fixed: all outputs must be byte-identical. With the
//! clock advancing, outputs may differ only inside the date fields.

use crate::common::*;
use crate::disk::*;
use crate::gen::*;
use crate::runner::*;
use crate::simseam::ProcEnv;
use oxidize_pdf::writer::PdfWriter;
use serde::{Deserialize, Serialize};
use serde_json::Value;

pub struct C20;

#[derive(Clone, Debug, Serialize, Deserialize)]
pub struct Case {
    pub program: Program,
    pub cfg: WCfg,
    /// entropy streams to serialise under: (seed, mode) with mode 0 seeded, 1 all-zero, 2 all-0xFF
    pub entropies: Vec<(u64, i32)>,
    /// also serialise once with the clock advancing by this many ns per clock read (0 = skip)
    pub clock_step_ns: i64,
}

fn gen_case(cs: u64, tier: Tier) -> Case {
    let mut r = Rng::new(cs);
    let program = gen_program(&mut r, &GenProgOpts { max_pages: 3, tricky_text: false, images: true, big_images: false, rich: true, tricky_names: false });
    let cfgs = all_configs();
    let mut cfg = cfgs[r.usize_below(cfgs.len())].clone();
    if cfg.object_streams && !r.chance(1, 4) {
        cfg.object_streams = false; // million-entry xref streams are slow to produce; keep them rarer
    }
    let n = if tier == Tier::Quick { 6 } else { 24 };
    let mut entropies: Vec<(u64, i32)> = (0..n).map(|_| (r.next_u64(), 0)).collect();
    entropies.push((0, 1));
    entropies.push((0, 2));
    Case { program, cfg, entropies, clock_step_ns: if r.chance(1, 2) { 1_000_000_000 * (1 + r.below(5000)) as i64 } else { 0 } }
}

fn serialise(p: &Program, cfg: &WCfg) -> Result<Vec<u8>, String> {
    let mut doc = build_document(p)?;
    let mut buf = Vec::new();
    let mut w = PdfWriter::with_config(&mut buf, cfg.to_config());
    w.write_document(&mut doc).map_err(|e| format!("write_document: {}", e))?;
    drop(w);
    Ok(buf)
}

/// The SAME `Document` value written twice by two writers (the first clause of the property taken
/// literally): returns both outputs.
fn serialise_same_value_twice(p: &Program, cfg: &WCfg) -> Result<(Vec<u8>, Vec<u8>), String> {
    let mut doc = build_document(p)?;
    let mut out = vec![];
    for _ in 0..2 {
        let mut buf = Vec::new();
        let mut w = PdfWriter::with_config(&mut buf, cfg.to_config());
        w.write_document(&mut doc).map_err(|e| format!("write_document: {}", e))?;
        drop(w);
        out.push(buf);
    }
    let b = out.pop().unwrap();
    Ok((out.pop().unwrap(), b))
}

/// Overwrite the digits of every date value (PDF date strings after /CreationDate and /ModDate,
/// XMP date elements) with '0' so that equal-length dates compare equal.
pub fn mask_dates(bytes: &[u8]) -> Vec<u8> {
    let mut out = bytes.to_vec();
    let mask_after = |out: &mut Vec<u8>, key: &[u8], until: u8| {
        let mut i = 0;
        while i + key.len() <= out.len() {
            if &out[i..i + key.len()] == key {
                let mut j = i + key.len();
                let mut n = 0;
                while j < out.len() && out[j] != until && n < 64 {
                    if out[j].is_ascii_digit() {
                        out[j] = b'0';
                    }
                    j += 1;
                    n += 1;
                }
                i = j;
            } else {
                i += 1;
            }
        }
    };
    mask_after(&mut out, b"/CreationDate", b')');
    mask_after(&mut out, b"/ModDate", b')');
    for tag in [&b"<xmp:CreateDate>"[..], b"<xmp:ModifyDate>", b"<xmp:MetadataDate>", b"xmp:CreateDate=\"", b"xmp:ModifyDate=\"", b"xmp:MetadataDate=\""] {
        let until = if tag.ends_with(b"\"") { b'"' } else { b'<' };
        mask_after(&mut out, tag, until);
    }
    out
}

fn first_diff(a: &[u8], b: &[u8]) -> String {
    let n = a.len().min(b.len());
    let p = (0..n).find(|&i| a[i] != b[i]).unwrap_or(n);
    // printable rendering (the difference may sit inside binary stream data)
    let ctx = |x: &[u8]| x[p.saturating_sub(40)..(p + 40).min(x.len())].iter().map(|&b| if b == b'\n' { "\\n".to_string() } else if (0x20..0x7f).contains(&b) { (b as char).to_string() } else { format!("\\x{:02x}", b) }).collect::<String>();
    format!("lengths {} vs {}, first difference at byte {}: …{}… vs …{}…", a.len(), b.len(), p, ctx(a), ctx(b))
}

impl Property for C20 {
    fn id(&self) -> &'static str {
        "C20"
    }
    fn engine(&self) -> Engine {
        Engine::Disk
    }
    fn cases(&self, tier: Tier) -> u64 {
        match tier {
            Tier::Quick => 1_000,
            Tier::Thorough => 20_000,
        }
    }
    fn gen(&self, cs: u64, tier: Tier, _ctx: &ExecCtx) -> Value {
        serde_json::to_value(gen_case(cs, tier)).unwrap()
    }
    fn exec(&self, case: &Value, ctx: &ExecCtx) -> Outcome {
        let mut total = Outcome::default();
        let c: Case = match serde_json::from_value(case.clone()) {
            Ok(c) => c,
            Err(e) => {
                total.violate("harness-bad-case", e.to_string());
                return total;
            }
        };
        let mut outputs: Vec<((u64, i32), Vec<u8>)> = vec![];
        let mut run = |env: ProcEnv, total: &mut Outcome| -> Option<Vec<u8>> {
            let (p, cfg) = (c.program.clone(), c.cfg.clone());
            let mut o = in_case_thread(ctx, &env, 120_000, move |out| match serialise(&p, &cfg) {
                Ok(b) => out.refined = Some(Value::String(hex(&b))),
                Err(e) => {
                    out.bump("skipped.unbuildable_program", 1);
                    let _ = e;
                }
            });
            total.sim_ns += o.sim_ns;
            for (k, v) in &o.counters {
                total.bump(k, *v);
            }
            if let Some(v) = o.violation.take() {
                total.violate(&format!("writer-{}", v.class), v.detail);
                return None;
            }
            match o.refined.take() {
                Some(Value::String(h)) => Some(unhex(&h)),
                _ => None,
            }
        };
        for (seed, mode) in &c.entropies {
            let mut env = ProcEnv::fixed(*seed);
            env.entropy_mode = *mode;
            match run(env, &mut total) {
                Some(b) => outputs.push(((*seed, *mode), b)),
                None => return total,
            }
            total.bump(&format!("fault.entropy_mode_{}", mode), 1);
        }
        if outputs.is_empty() {
            return total;
        }
        total.nontrivial = true;
        total.bump("serialisations", outputs.len() as u64);
        total.bump("output_bytes", outputs[0].1.len() as u64);
        total.digest = fnv1a(&outputs[0].1);
        total.log_digest = total.digest;
        total.bump(&format!("cfg.{}", c.cfg.label()), 1);
        let (e0, b0) = &outputs[0];
        for (e, b) in &outputs[1..] {
            if b != b0 {
                total.violate(
                    "output-depends-on-entropy",
                    format!("config {}: entropy {:?} and {:?} give different files: {}", c.cfg.label(), e0, e, first_diff(b0, b)),
                );
                let mut nc = c.clone();
                nc.entropies = vec![*e0, *e];
                nc.clock_step_ns = 0;
                total.refined = Some(serde_json::to_value(&nc).unwrap());
                return total;
            }
        }
        // the same Document value written twice in one thread => identical
        {
            let (p, cfg) = (c.program.clone(), c.cfg.clone());
            let mut env = ProcEnv::fixed(e0.0);
            env.entropy_mode = e0.1;
            let o = in_case_thread(ctx, &env, 120_000, move |out| {
                if let Ok((a, b)) = serialise_same_value_twice(&p, &cfg) {
                    if a != b {
                        out.violate("same-document-value-serialises-differently-the-second-time", first_diff(&a, &b));
                    }
                    out.bump("probe.same_value_written_twice", 1);
                }
            });
            for (k, v) in &o.counters {
                if !k.starts_with("max.") {
                    total.bump(k, *v);
                }
            }
            if let Some(v) = o.violation {
                total.violate(&v.class, format!("config {}: {}", c.cfg.label(), v.detail));
                return total;
            }
        }
        // same entropy twice => identical (no other hidden source)
        {
            let mut env = ProcEnv::fixed(e0.0);
            env.entropy_mode = e0.1;
            if let Some(b) = run(env, &mut total) {
                if &b != b0 {
                    total.violate("output-differs-with-everything-owned-fixed", format!("config {}: same entropy {:?}, fixed clock, two runs differ: {}", c.cfg.label(), e0, first_diff(b0, &b)));
                    return total;
                }
            }
        }
        if c.clock_step_ns > 0 {
            let mut env = ProcEnv::fixed(e0.0);
            env.entropy_mode = e0.1;
            env.clock_step_ns = c.clock_step_ns;
            if let Some(b) = run(env, &mut total) {
                total.bump("fault.clock_advancing", 1);
                if &b != b0 {
                    total.bump("probe.output_changed_with_clock", 1);
                }
                let opaque = c.cfg.object_streams; // object streams are always Flate-compressed by the writer
                if opaque {
                    // the Info dictionary may sit inside a compressed object stream, where a date
                    // is not maskable at byte level; only the length-independent claim is checked
                    total.bump("skipped.date_mask_in_compressed_object_stream", 1);
                } else if mask_dates(&b) != mask_dates(b0) {
                    total.violate(
                        "clock-leaks-outside-date-fields",
                        format!("config {}: with the clock advancing {} ns per read the output differs outside the date fields: {}", c.cfg.label(), c.clock_step_ns, first_diff(&mask_dates(b0), &mask_dates(&b))),
                    );
                    let mut nc = c.clone();
                    nc.entropies = vec![*e0];
                    total.refined = Some(serde_json::to_value(&nc).unwrap());
                }
            }
        }
        total
    }
    fn shrink(&self, case: &Value) -> Vec<Value> {
        let c: Case = match serde_json::from_value(case.clone()) {
            Ok(c) => c,
            Err(_) => return vec![],
        };
        let mut v = vec![];
        for p in shrink_program(&c.program) {
            let mut n = c.clone();
            n.program = p;
            v.push(serde_json::to_value(&n).unwrap());
        }
        v
    }
    fn sample(&self, case: &Value) -> Value {
        truncate_json(case, 120)
    }
    fn describe(&self) -> Describe {
        Describe {
            rule: "case = generated authoring program (1-3 pages; text in several standard fonts, vector graphics, >= 0 raw images, ExtGState opacities, tiling patterns, axial shadings, form XObjects, text-note annotations, AcroForm text/checkbox fields, outline, info) x one writer configuration (table / xref stream / object streams x compression x version); serialised on fresh threads under R seeded entropy streams plus the all-zero and all-0xFF streams with the clock fixed => all byte strings must be identical; once more with the same entropy (guard against an unowned source); optionally once with the clock advancing, where after masking the digits of /CreationDate, /ModDate and the XMP date elements the bytes must be identical. non-trivial = program that serialised; distinct = digest of the output bytes.".into(),
            assumptions: vec![
                "the library's sources of nondeterminism are OS entropy (hash-map keys, rand), the clock and the pid, all three owned through libsim.so; the guard run (same entropy twice) would expose any other".into(),
                "with object streams the Info dictionary's dates are inside a (always Flate-compressed) object stream and cannot be masked at byte level; that combination is skipped for the advancing-clock clause only".into(),
            ],
            real_components: vec!["Document / Page authoring API".into(), "writer::PdfWriter::write_document (all object emission, xref table/stream, object streams)".into(), "metadata::xmp".into()],
            stub_components: vec!["OS entropy, clock, pid: libsim.so".into(), "sink: Vec<u8>".into()],
            fault_kinds: vec!["entropy: seeded streams".into(), "entropy: all-zero".into(), "entropy: all-0xFF".into(), "clock advancing k ns per read".into()],
            level: "exploration",
            exhaustive_note: None,
        }
    }
}
