//! C01 — reading any byte sequence never crashes, hangs or exhausts memory.
//! Seed corpus (library-written files under every writer configuration, synthetic multi-revision
//! files, filter-laden stream objects, repository fixtures, grammar skeletons, random bytes) →
//! stored-image fault plan → opened through a fault-injecting SimSource under every preset, with
//! the clock, the allocator and the process boundary owned by the harness.

use crate::common::*;
use crate::disk::*;
use crate::gen::*;
use crate::runner::*;
use crate::simdisk::*;
use crate::simseam::ProcEnv;
use crate::synth::*;
use oxidize_pdf::parser::objects::PdfObject;
use oxidize_pdf::parser::{ContentParser, PdfReader};
use oxidize_pdf::writer::PdfWriter;
use serde::{Deserialize, Serialize};
use serde_json::Value;
use std::io::Write;
use std::sync::Arc;

pub struct C01;

/// CPU time per (case x preset) that stands for 'runs unboundedly long'. The heaviest healthy inputs
/// (library-written files whose xref stream has a million entries) need about 1.5 s.
pub const CPU_LIMIT_MS: u64 = 120_000;

#[derive(Clone, Debug, Serialize, Deserialize)]
pub enum Base {
    Lib { program: Program, cfg: WCfg },
    /// encrypted library output
    LibEnc { program: Program, cfg: WCfg, enc: EncSpec },
    /// library output followed by incremental form fills / note additions (a multi-revision file
    /// written by the library itself; stored-image truncation then gives torn appends)
    Incremental { program: Program, cfg: WCfg, fills: Vec<(String, String)>, notes: Vec<String> },
    Synth(SynthSpec),
    Filters { seed: u64 },
    Fixture { name: String },
    Skeleton { seed: u64 },
    Random { len: usize, seed: u64 },
    Hex(String),
}

#[derive(Clone, Debug, Serialize, Deserialize, PartialEq)]
pub enum Mutation {
    Truncate(usize),
    BitFlip { pos: usize, bit: u8 },
    Overwrite { pos: usize, byte: u8 },
    ZeroBlock { pos: usize, len: usize },
    DupBlock { pos: usize, len: usize },
    SwapBlocks { a: usize, b: usize, len: usize },
    SpliceRandom { pos: usize, len: usize, seed: u64 },
    /// replace the number after the nth occurrence of `/key` by `value`
    KeySlot { key: String, nth: usize, value: String },
    /// replace the nth integer token of the file by `value` (reaches xref subsection starts/counts,
    /// entry offsets/generations, startxref, object numbers …)
    IntToken { nth: usize, value: String },
    /// insert text right after the nth `<<`
    InsertInDict { nth: usize, text: String },
    /// insert text inside the nth literal string (after its opening parenthesis)
    InsertInString { nth: usize, text: String },
}

#[derive(Clone, Debug, Serialize, Deserialize)]
pub struct Case {
    pub base: Base,
    pub mutations: Vec<Mutation>,
    pub presets: Vec<String>,
    pub source: SourcePlan,
    pub clock_jump_at: u64,
    pub entropy_seed: u64,
    /// passwords the navigation tries on an encrypted input (besides "" and "user")
    #[serde(default)]
    pub passwords: Vec<String>,
}

pub const BOUNDARY: [&str; 20] = [
    "-9223372036854775808",
    "-2147483649",
    "-2147483648",
    "2147483640",
    "4294967290",
    "9223372036854775800",
    "18446744073709551610",
    "-1",
    "0",
    "1",
    "255",
    "65535",
    "65536",
    "2147483647",
    "2147483648",
    "4294967295",
    "4294967296",
    "9223372036854775807",
    "18446744073709551615",
    "100000000000000000000",
];

pub const KEYS: [&str; 22] = [
    "Size", "Prev", "W", "Index", "N", "First", "Length", "Predictor", "Colors", "Columns", "BitsPerComponent", "Rotate", "Count",
    "EarlyChange", "K", "Rows", "Width", "Height", "Length1", "XRefStm", "FirstChar", "LastChar",
];

// ------------------------------------------------------------------ corpus builders

fn a85(data: &[u8]) -> Vec<u8> {
    let mut out = vec![];
    for ch in data.chunks(4) {
        let mut v: u32 = 0;
        for i in 0..4 {
            v = (v << 8) | *ch.get(i).unwrap_or(&0) as u32;
        }
        if ch.len() == 4 && v == 0 {
            out.push(b'z');
            continue;
        }
        let mut d = [0u8; 5];
        for i in (0..5).rev() {
            d[i] = (v % 85) as u8 + b'!';
            v /= 85;
        }
        out.extend_from_slice(&d[..ch.len() + 1]);
    }
    out.extend_from_slice(b"~>");
    out
}

fn rle(data: &[u8]) -> Vec<u8> {
    let mut out = vec![];
    for ch in data.chunks(100) {
        out.push(ch.len() as u8 - 1);
        out.extend_from_slice(ch);
    }
    out.push(128);
    out
}

fn zlib(data: &[u8]) -> Vec<u8> {
    let mut e = flate2::write::ZlibEncoder::new(Vec::new(), flate2::Compression::default());
    e.write_all(data).unwrap();
    e.finish().unwrap()
}

/// A small valid file whose objects are streams carrying every filter name, filter chains and
/// adversarial /DecodeParms.
fn build_filters(seed: u64) -> Vec<u8> {
    let mut r = Rng::new(seed);
    let mut out: Vec<u8> = b"%PDF-1.7\n%\xE2\xE3\xCF\xD3\n".to_vec();
    let mut offs = vec![];
    let n_streams = 2 + r.usize_below(5);
    let content = b"BT /F1 12 Tf 72 700 Td (Hello filters) Tj ET\n0 0 10 10 re f\n".to_vec();
    let mut push_obj = |out: &mut Vec<u8>, offs: &mut Vec<usize>, body: &[u8]| {
        offs.push(out.len());
        out.extend_from_slice(format!("{} 0 obj\n", offs.len()).as_bytes());
        out.extend_from_slice(body);
        out.extend_from_slice(b"\nendobj\n");
    };
    push_obj(&mut out, &mut offs, b"<< /Type /Catalog /Pages 2 0 R >>");
    push_obj(&mut out, &mut offs, b"<< /Type /Pages /Kids [3 0 R] /Count 1 >>");
    let kids_contents: Vec<String> = (0..n_streams).map(|i| format!("{} 0 R", 4 + i)).collect();
    push_obj(
        &mut out,
        &mut offs,
        format!(
            "<< /Type /Page /Parent 2 0 R /MediaBox [0 0 612 792] /Resources << /Font << /F1 << /Type /Font /Subtype /Type1 /BaseFont /Helvetica >> >> /XObject << /Im1 {} 0 R >> >> /Contents [{}] >>",
            4 + n_streams - 1,
            kids_contents.join(" ")
        )
        .as_bytes(),
    );
    for si in 0..n_streams {
        if si + 1 < n_streams && r.chance(1, 3) {
            // a stream whose payload really is predictor-encoded for its (small) parameters:
            // every PNG row filter type, sub-byte and multi-byte pixels, TIFF predictor too
            let colors = *r.pick(&[1usize, 1, 3, 4]);
            let bpc = *r.pick(&[1usize, 2, 4, 8, 8, 16]);
            let columns = 1 + r.usize_below(40);
            let rows = 1 + r.usize_below(6);
            let row_bytes = (columns * colors * bpc + 7) / 8;
            let predictor = *r.pick(&[2u32, 10, 11, 12, 13, 14, 15]);
            let mut raw = vec![];
            for _ in 0..rows {
                if predictor >= 10 {
                    raw.push(r.below(5) as u8);
                }
                raw.extend(r.bytes(row_bytes));
            }
            let lzw = r.chance(1, 6);
            let data = if lzw { raw } else { zlib(&raw) };
            let dict = format!(
                "<< /Length {} /Filter /{} /DecodeParms << /Predictor {} /Colors {} /BitsPerComponent {} /Columns {} >> >>",
                data.len(), if lzw { "LZWDecode" } else { "FlateDecode" }, predictor, colors, bpc, columns
            );
            let mut body = dict.into_bytes();
            body.extend_from_slice(b"\nstream\n");
            body.extend_from_slice(&data);
            body.extend_from_slice(b"\nendstream");
            push_obj(&mut out, &mut offs, &body);
            continue;
        }
        let nf = 1 + r.usize_below(3);
        let rl = 1 + r.usize_below(300);
        let mut data = if r.chance(1, 2) { content.clone() } else { r.bytes(rl) };
        let mut names = vec![];
        let mut parms = vec![];
        for _ in 0..nf {
            let f = *r.pick(&["FlateDecode", "FlateDecode", "LZWDecode", "ASCIIHexDecode", "ASCII85Decode", "RunLengthDecode", "CCITTFaxDecode", "DCTDecode", "JBIG2Decode", "JPXDecode", "Crypt", "Fl", "LZW", "AHx", "A85", "RL", "CCF", "DCT"]);
            names.push(format!("/{}", f));
            // filters are applied first-to-last when decoding, so encode in reverse: we simply wrap
            data = match f {
                "FlateDecode" | "Fl" => zlib(&data),
                "ASCIIHexDecode" | "AHx" => {
                    let mut h = hex(&data).into_bytes();
                    h.push(b'>');
                    h
                }
                "ASCII85Decode" | "A85" => a85(&data),
                "RunLengthDecode" | "RL" => rle(&data),
                _ => data, // no encoder: the payload is whatever bytes we have
            };
            let p = if r.chance(1, 2) {
                let pick = |r: &mut Rng, xs: &[&str]| xs[r.usize_below(xs.len())].to_string();
                let mut d = String::from("<<");
                if r.chance(2, 3) {
                    d.push_str(&format!(" /Predictor {}", pick(&mut r, &["1", "2", "10", "11", "12", "13", "14", "15", "255", "0", "-1", "4294967296"])));
                }
                if r.chance(1, 2) {
                    d.push_str(&format!(" /Colors {}", pick(&mut r, &["0", "1", "3", "4", "255", "2147483648", "-1", "4294967295"])));
                }
                if r.chance(1, 2) {
                    d.push_str(&format!(" /Columns {}", pick(&mut r, &["0", "1", "5", "64", "65536", "2147483647", "4294967295", "4294967296", "-1", "9223372036854775807"])));
                }
                if r.chance(1, 2) {
                    d.push_str(&format!(" /BitsPerComponent {}", pick(&mut r, &["0", "1", "2", "4", "8", "16", "32", "255", "-8"])));
                }
                if r.chance(1, 4) {
                    d.push_str(&format!(" /EarlyChange {}", pick(&mut r, &["0", "1", "2", "-1"])));
                }
                if r.chance(1, 4) {
                    d.push_str(&format!(" /K {} /Rows {} /BlackIs1 true", pick(&mut r, &["-1", "0", "1", "2147483647"]), pick(&mut r, &["0", "1", "4294967295"])));
                }
                d.push_str(" >>");
                d
            } else {
                "null".to_string()
            };
            parms.push(p);
        }
        // the decoder applies /Filter left to right, so the outermost encoding must come first
        names.reverse();
        parms.reverse();
        let len_txt = if r.chance(1, 6) { BOUNDARY[r.usize_below(BOUNDARY.len())].to_string() } else { data.len().to_string() };
        let image_keys = if r.chance(1, 3) { " /Type /XObject /Subtype /Image /Width 4 /Height 4 /ColorSpace /DeviceGray /BitsPerComponent 8" } else { "" };
        let dict = if names.len() == 1 && r.chance(1, 2) {
            format!("<< /Length {} /Filter {} /DecodeParms {}{} >>", len_txt, names[0], parms[0], image_keys)
        } else {
            format!("<< /Length {} /Filter [{}] /DecodeParms [{}]{} >>", len_txt, names.join(" "), parms.join(" "), image_keys)
        };
        let mut body = dict.into_bytes();
        body.extend_from_slice(b"\nstream\n");
        body.extend_from_slice(&data);
        body.extend_from_slice(b"\nendstream");
        push_obj(&mut out, &mut offs, &body);
    }
    let xref = out.len();
    out.extend_from_slice(format!("xref\n0 {}\n0000000000 65535 f \n", offs.len() + 1).as_bytes());
    for o in &offs {
        out.extend_from_slice(format!("{:010} 00000 n \n", o).as_bytes());
    }
    out.extend_from_slice(format!("trailer\n<< /Size {} /Root 1 0 R >>\nstartxref\n{}\n%%EOF\n", offs.len() + 1, xref).as_bytes());
    out
}

fn gen_token(r: &mut Rng, depth: u32, out: &mut Vec<u8>) {
    match r.below(if depth > 3 { 8 } else { 12 }) {
        0 => out.extend_from_slice(BOUNDARY[r.usize_below(BOUNDARY.len())].as_bytes()),
        1 => out.extend_from_slice(format!("{}.{}", r.below(1000), r.below(1000)).as_bytes()),
        2 => out.extend_from_slice(*r.pick(&[&b"true"[..], b"false", b"null", b"R", b"obj", b"endobj", b"stream", b"endstream", b"xref", b"trailer", b"startxref"])),
        3 => {
            out.push(b'/');
            out.extend_from_slice(*r.pick(&[&b"Type"[..], b"Pages", b"Kids", b"Count", b"Length", b"Filter", b"A#20B", b"#", b"#zz", b"", b"Catalog", b"Page", b"Parent", b"Contents", b"Resources", b"Font", b"Root", b"Size", b"Prev", b"W", b"Index"]));
        }
        4 => {
            out.push(b'(');
            for _ in 0..r.below(8) {
                out.extend_from_slice(*r.pick(&[&b"a"[..], b"\\(", b"\\)", b"\\\\", b"\\777", b"\\8", b"\\0", b"\\12", b"\\\n", b"(", b")", b"\\x", b"\xff"]));
            }
            if !r.chance(1, 8) {
                out.push(b')');
            }
        }
        5 => {
            out.push(b'<');
            for _ in 0..r.below(9) {
                out.push(*r.pick(b"0123456789abcdefABCDEFgz "));
            }
            if !r.chance(1, 8) {
                out.push(b'>');
            }
        }
        6 => out.extend_from_slice(format!("{} {} R", r.below(12), r.below(3)).as_bytes()),
        7 => out.extend_from_slice(format!("{}", r.below(100)).as_bytes()),
        8 | 9 => {
            out.extend_from_slice(b"<<");
            for _ in 0..r.below(5) {
                out.push(b' ');
                out.push(b'/');
                out.extend_from_slice(KEYS[r.usize_below(KEYS.len())].as_bytes());
                out.push(b' ');
                gen_token(r, depth + 1, out);
            }
            if !r.chance(1, 10) {
                out.extend_from_slice(b" >>");
            }
        }
        _ => {
            out.push(b'[');
            for _ in 0..r.below(5) {
                out.push(b' ');
                gen_token(r, depth + 1, out);
            }
            if !r.chance(1, 10) {
                out.push(b']');
            }
        }
    }
}

/// Grammar-generated PDF skeleton: structurally PDF-shaped, semantically arbitrary.
fn build_skeleton(seed: u64) -> Vec<u8> {
    let mut r = Rng::new(seed);
    let mut out: Vec<u8> = vec![];
    if !r.chance(1, 10) {
        out.extend_from_slice(format!("%PDF-{}.{}\n", r.below(3), r.below(10)).as_bytes());
    }
    let n = 1 + r.usize_below(8);
    let mut offs = vec![];
    for i in 0..n {
        offs.push(out.len());
        let num = if r.chance(1, 8) { r.below(5) as usize } else { i + 1 };
        out.extend_from_slice(format!("{} {} obj\n", num, if r.chance(1, 10) { r.below(70000) } else { 0 }).as_bytes());
        if i == 0 && r.chance(2, 3) {
            out.extend_from_slice(b"<< /Type /Catalog /Pages 2 0 R >>");
        } else if i == 1 && r.chance(2, 3) {
            out.extend_from_slice(format!("<< /Type /Pages /Kids [{} 0 R {} 0 R] /Count {} >>", r.below(6), r.below(6), BOUNDARY[r.usize_below(BOUNDARY.len())]).as_bytes());
        } else if r.chance(1, 4) {
            out.extend_from_slice(format!("<< /Type /Page /Parent {} 0 R /Contents {} 0 R /Resources {} 0 R /Rotate {} >>", r.below(6), r.below(8), r.below(8), BOUNDARY[r.usize_below(BOUNDARY.len())]).as_bytes());
        } else if r.chance(1, 4) {
            let dl = r.usize_below(40);
            let data = r.bytes(dl);
            out.extend_from_slice(format!("<< /Length {} >>\nstream\n", if r.chance(1, 3) { BOUNDARY[r.usize_below(BOUNDARY.len())].to_string() } else { data.len().to_string() }).as_bytes());
            out.extend_from_slice(&data);
            out.extend_from_slice(b"\nendstream");
        } else {
            gen_token(&mut r, 0, &mut out);
        }
        if !r.chance(1, 10) {
            out.extend_from_slice(b"\nendobj\n");
        }
    }
    let xref = out.len();
    if r.chance(3, 4) {
        out.extend_from_slice(format!("xref\n{} {}\n", if r.chance(1, 6) { BOUNDARY[r.usize_below(BOUNDARY.len())].to_string() } else { "0".into() }, if r.chance(1, 6) { BOUNDARY[r.usize_below(BOUNDARY.len())].to_string() } else { (n + 1).to_string() }).as_bytes());
        out.extend_from_slice(b"0000000000 65535 f \n");
        for o in &offs {
            out.extend_from_slice(format!("{:010} {:05} n \n", if r.chance(1, 8) { r.below(100000) as usize } else { *o }, 0).as_bytes());
        }
        out.extend_from_slice(b"trailer\n");
        out.extend_from_slice(format!("<< /Size {} /Root {} 0 R", if r.chance(1, 5) { BOUNDARY[r.usize_below(BOUNDARY.len())].to_string() } else { (n + 1).to_string() }, 1 + r.below(3)).as_bytes());
        if r.chance(1, 4) {
            out.extend_from_slice(format!(" /Prev {}", if r.chance(1, 2) { xref.to_string() } else { BOUNDARY[r.usize_below(BOUNDARY.len())].to_string() }).as_bytes());
        }
        out.extend_from_slice(b" >>\n");
    }
    if r.chance(7, 8) {
        out.extend_from_slice(format!("startxref\n{}\n%%EOF\n", if r.chance(1, 6) { BOUNDARY[r.usize_below(BOUNDARY.len())].to_string() } else { xref.to_string() }).as_bytes());
    }
    out
}

fn fixtures_dir() -> std::path::PathBuf {
    std::path::PathBuf::from(std::env::var("VERIF_REPO").unwrap_or_else(|_| "/repo".into())).join("oxidize-pdf-core/tests/fixtures")
}

/// Names (relative to the fixtures directory) of every fixture file up to 64 KiB, sorted.
fn fixture_names() -> Vec<String> {
    fn walk(dir: &std::path::Path, rel: &str, out: &mut Vec<String>) {
        if let Ok(rd) = std::fs::read_dir(dir) {
            let mut es: Vec<_> = rd.flatten().collect();
            es.sort_by_key(|e| e.file_name());
            for e in es {
                let name = format!("{}{}", rel, e.file_name().to_string_lossy());
                match e.metadata() {
                    Ok(m) if m.is_dir() => walk(&e.path(), &format!("{}/", name), out),
                    Ok(m) if m.is_file() && m.len() > 0 && m.len() <= 65536 && !name.ends_with(".sh") => out.push(name),
                    _ => {}
                }
            }
        }
    }
    let mut v = vec![];
    walk(&fixtures_dir(), "", &mut v);
    v
}

pub fn build_base(b: &Base) -> Result<Vec<u8>, String> {
    match b {
        Base::Lib { program, cfg } => {
            let mut doc = build_document(program)?;
            let mut buf = Vec::new();
            let mut w = PdfWriter::with_config(&mut buf, cfg.to_config());
            w.write_document(&mut doc).map_err(|e| format!("write_document: {}", e))?;
            drop(w);
            Ok(buf)
        }
        Base::LibEnc { program, cfg, enc } => {
            let mut buf = Vec::new();
            match crate::c03::write_through(program, cfg, &Some(enc.clone()), &mut buf)? {
                Ok(()) => Ok(buf),
                Err(e) => Err(e),
            }
        }
        Base::Incremental { program, cfg, fills, notes } => {
            let mut cur = Vec::new();
            crate::c03::write_through(program, cfg, &None, &mut cur)??;
            for (name, value) in fills {
                if let Ok(b) = oxidize_pdf::writer::IncrementalFormFiller::new(&cur).fill(name, value) {
                    cur = b;
                }
            }
            for (i, n) in notes.iter().enumerate() {
                let m = oxidize_pdf::writer::TextNoteMutation::Add { page_index: 0, position: oxidize_pdf::geometry::Point::new(5.0 + 7.0 * i as f64, 9.0), contents: n.clone() };
                if let Ok(u) = oxidize_pdf::writer::IncrementalTextNoteEditor::new(&cur).apply(&[m]) {
                    cur = u.pdf_bytes;
                }
            }
            Ok(cur)
        }
        Base::Synth(s) => Ok(build(s).bytes),
        Base::Filters { seed } => Ok(build_filters(*seed)),
        Base::Fixture { name } => std::fs::read(fixtures_dir().join(name)).map_err(|e| format!("fixture {}: {}", name, e)),
        Base::Skeleton { seed } => Ok(build_skeleton(*seed)),
        Base::Random { len, seed } => Ok(Rng::new(*seed).bytes(*len)),
        Base::Hex(h) => Ok(unhex(h)),
    }
}

// ------------------------------------------------------------------ stored-image faults

fn find_nth(h: &[u8], n: &[u8], nth: usize) -> Option<usize> {
    let mut count = 0;
    let mut i = 0;
    while i + n.len() <= h.len() {
        if &h[i..i + n.len()] == n {
            if count == nth {
                return Some(i);
            }
            count += 1;
            i += n.len();
        } else {
            i += 1;
        }
    }
    None
}

fn count_occ(h: &[u8], n: &[u8]) -> usize {
    let mut c = 0;
    let mut i = 0;
    while i + n.len() <= h.len() {
        if &h[i..i + n.len()] == n {
            c += 1;
            i += n.len();
        } else {
            i += 1;
        }
    }
    c
}

/// positions (start, end) of integer tokens
fn int_tokens(h: &[u8]) -> Vec<(usize, usize)> {
    let mut v = vec![];
    let mut i = 0;
    while i < h.len() {
        let starts = h[i].is_ascii_digit() && (i == 0 || matches!(h[i - 1], b' ' | b'\n' | b'\r' | b'\t' | b'[' | b'<' | b'>' | b'/' | b'-' | b'+'));
        if starts {
            let s = i;
            while i < h.len() && h[i].is_ascii_digit() {
                i += 1;
            }
            if i >= h.len() || matches!(h[i], b' ' | b'\n' | b'\r' | b'\t' | b']' | b'>' | b'/' | b'<' | b'[') {
                v.push((s, i));
            }
        } else {
            i += 1;
        }
    }
    v
}

pub fn apply_mutation(img: &mut Vec<u8>, m: &Mutation) -> bool {
    if img.is_empty() {
        return false;
    }
    let len = img.len();
    match m {
        Mutation::Truncate(n) => {
            let n = n % len;
            img.truncate(n);
            true
        }
        Mutation::BitFlip { pos, bit } => {
            img[pos % len] ^= 1 << (bit % 8);
            true
        }
        Mutation::Overwrite { pos, byte } => {
            let p = pos % len;
            let ch = img[p] != *byte;
            img[p] = *byte;
            ch
        }
        Mutation::ZeroBlock { pos, len: l } => {
            let p = pos % len;
            let e = (p + *l).min(len);
            for b in &mut img[p..e] {
                *b = 0;
            }
            true
        }
        Mutation::DupBlock { pos, len: l } => {
            let p = pos % len;
            let e = (p + *l).min(len);
            let blk = img[p..e].to_vec();
            img.splice(e..e, blk);
            true
        }
        Mutation::SwapBlocks { a, b, len: l } => {
            let l = (*l).min(len / 2).max(1);
            let a = a % (len - l + 1);
            let b = b % (len - l + 1);
            if a + l <= b || b + l <= a {
                for i in 0..l {
                    img.swap(a + i, b + i);
                }
                true
            } else {
                false
            }
        }
        Mutation::SpliceRandom { pos, len: l, seed } => {
            let p = pos % len;
            let e = (p + *l).min(len);
            let blk = Rng::new(*seed).bytes(*l);
            img.splice(p..e, blk);
            true
        }
        Mutation::KeySlot { key, nth, value } => {
            let pat = format!("/{}", key).into_bytes();
            let occ = count_occ(img, &pat);
            if occ == 0 {
                return false;
            }
            let p = match find_nth(img, &pat, nth % occ) {
                Some(p) => p + pat.len(),
                None => return false,
            };
            // the key must end here (not a prefix of a longer name)
            if p < img.len() && (img[p].is_ascii_alphanumeric()) {
                return false;
            }
            let mut s = p;
            while s < img.len() && matches!(img[s], b' ' | b'\n' | b'\r' | b'[') {
                s += 1;
            }
            let mut e = s;
            if e < img.len() && (img[e] == b'-' || img[e] == b'+') {
                e += 1;
            }
            while e < img.len() && (img[e].is_ascii_digit() || img[e] == b'.') {
                e += 1;
            }
            if e == s {
                return false;
            }
            img.splice(s..e, value.bytes());
            true
        }
        Mutation::IntToken { nth, value } => {
            let toks = int_tokens(img);
            if toks.is_empty() {
                return false;
            }
            let (s, e) = toks[nth % toks.len()];
            img.splice(s..e, value.bytes());
            true
        }
        Mutation::InsertInDict { nth, text } => {
            let occ = count_occ(img, b"<<");
            if occ == 0 {
                return false;
            }
            match find_nth(img, b"<<", nth % occ) {
                Some(p) => {
                    img.splice(p + 2..p + 2, text.bytes());
                    true
                }
                None => false,
            }
        }
        Mutation::InsertInString { nth, text } => {
            let occ = count_occ(img, b"(");
            if occ == 0 {
                return false;
            }
            match find_nth(img, b"(", nth % occ) {
                Some(p) => {
                    img.splice(p + 1..p + 1, text.bytes());
                    true
                }
                None => false,
            }
        }
    }
}

fn kind_of(m: &Mutation) -> &'static str {
    match m {
        Mutation::Truncate(_) => "truncate",
        Mutation::BitFlip { .. } => "bitflip",
        Mutation::Overwrite { .. } => "overwrite_byte",
        Mutation::ZeroBlock { .. } => "zero_block",
        Mutation::DupBlock { .. } => "dup_block",
        Mutation::SwapBlocks { .. } => "swap_blocks",
        Mutation::SpliceRandom { .. } => "splice",
        Mutation::KeySlot { .. } => "numeric_slot_key",
        Mutation::IntToken { .. } => "numeric_slot_int_token",
        Mutation::InsertInDict { .. } => "insert_in_dict",
        Mutation::InsertInString { .. } => "string_escape",
    }
}

fn gen_mutation(r: &mut Rng, len: usize, structured: bool, present: &[usize]) -> Mutation {
    let len = len.max(1);
    // bias positions to the tail (xref / trailer) and to block boundaries
    let pos = |r: &mut Rng| match r.below(4) {
        0 => len.saturating_sub(1 + r.usize_below(len.min(1024))),
        1 => (r.usize_below(len / 512 + 1) * 512).min(len - 1),
        _ => r.usize_below(len),
    };
    let c = r.below(if structured { 16 } else { 8 });
    match c {
        0 => Mutation::Truncate(pos(r)),
        1 => Mutation::BitFlip { pos: pos(r), bit: r.below(8) as u8 },
        2 => Mutation::Overwrite { pos: pos(r), byte: *r.pick(&[0u8, 0xFF, b'(', b')', b'<', b'>', b'/', b'%', b'\n', b'\r', b'9', b'-']) },
        3 => Mutation::ZeroBlock { pos: pos(r), len: *r.pick(&[1usize, 16, 512, 4096]) },
        4 => Mutation::DupBlock { pos: pos(r), len: *r.pick(&[1usize, 20, 512]) },
        5 => Mutation::SwapBlocks { a: pos(r), b: pos(r), len: *r.pick(&[8usize, 64, 512]) },
        6 => Mutation::SpliceRandom { pos: pos(r), len: 1 + r.usize_below(64), seed: r.next_u64() },
        7 | 8 | 9 | 10 => {
            // three times in four a key that actually occurs in the (unmutated) base
            let k = if !present.is_empty() && r.chance(3, 4) { present[r.usize_below(present.len())] } else { r.usize_below(KEYS.len()) };
            Mutation::KeySlot { key: KEYS[k].to_string(), nth: r.usize_below(16), value: BOUNDARY[r.usize_below(BOUNDARY.len())].to_string() }
        }
        11 | 12 | 13 => Mutation::IntToken { nth: r.usize_below(4000), value: BOUNDARY[r.usize_below(BOUNDARY.len())].to_string() },
        14 => Mutation::InsertInDict {
            nth: r.usize_below(64),
            text: (*r.pick(&[
                " /Predictor 15 /Columns 4294967295 /Colors 255 /BitsPerComponent 16",
                " /DecodeParms << /Predictor 12 /Columns 0 >>",
                " /Filter [/FlateDecode /FlateDecode /ASCII85Decode]",
                " /Length 9223372036854775807",
                " /Kids [1 0 R 2 0 R 3 0 R] /Count -1",
                " /Parent 1 0 R",
                " /Prev 0",
                " /W [8 8 8] /Index [0 4294967295]",
                " /Type /ObjStm /N 4294967295 /First 4294967295",
                " /Rotate 2147483648",
                " /Resources 3 0 R /Contents 3 0 R",
            ]))
            .to_string(),
        },
        _ => Mutation::InsertInString { nth: r.usize_below(64), text: (*r.pick(&["\\777", "\\400", "\\8", "\\", "\\\r\n", "((((((((", "\\0\\00\\000", "\\x41", "\u{fffd}"])).to_string() },
    }
}

fn gen_case(cs: u64, tier: Tier, ctx: &ExecCtx) -> Case {
    let mut r = Rng::new(cs);
    let names = fixture_names();
    let mut passwords: Vec<String> = vec![];
    let base = match r.below(23) {
        20 => {
            let program = gen_program(&mut r, &GenProgOpts { max_pages: 2, tricky_text: true, images: true, big_images: false, rich: true, tricky_names: false });
            let cfgs = all_configs();
            let mut cfg = cfgs[r.usize_below(cfgs.len())].clone();
            cfg.object_streams = false;
            let enc = gen_enc(&mut r);
            passwords.push(enc.user.clone());
            passwords.push(enc.owner.clone());
            Base::LibEnc { program, cfg, enc }
        }
        21 | 22 => {
            let mut program = gen_program(&mut r, &GenProgOpts { max_pages: 2, tricky_text: false, images: false, big_images: false, rich: false, tricky_names: false });
            let at = program.ops.iter().position(|o| matches!(o, DocOp::NewPage { .. })).map(|i| i + 1).unwrap_or(program.ops.len());
            program.ops.insert(at, DocOp::Field { name: "fa".into(), value: "one".into(), kind: 0, x: 20.0, y: 30.0 });
            program.ops.insert(at, DocOp::Field { name: "fb".into(), value: "two".into(), kind: 0, x: 20.0, y: 60.0 });
            let cfgs = all_configs();
            let mut cfg = cfgs[r.usize_below(cfgs.len())].clone();
            cfg.object_streams = false;
            let fills = (0..1 + r.usize_below(3)).map(|i| ((*r.pick(&["fa", "fb"])).to_string(), format!("v{}-{}", i, r.below(1000)))).collect();
            let notes = (0..r.usize_below(3)).map(|i| format!("note {}", i)).collect();
            Base::Incremental { program, cfg, fills, notes }
        }
        0..=5 => {
            let cfgs = all_configs();
            let big = tier == Tier::Thorough && r.chance(1, 10);
            let program = gen_program(&mut r, &GenProgOpts { max_pages: 3, tricky_text: true, images: true, big_images: big, rich: false, tricky_names: false });
            // object-stream configurations make the writer number its object streams from 1,000,000,
            // so their xref streams carry a million entries (~1.5 s per preset to read): keep them rare
            let mut cfg = cfgs[r.usize_below(cfgs.len())].clone();
            if cfg.object_streams && !r.chance(1, 6) {
                cfg.object_streams = false;
            }
            Base::Lib { program, cfg }
        }
        6..=9 => Base::Synth(gen_spec(&mut r, &GenOpts { max_updates: 4, allow_objstm: true, allow_xref_stream: true, allow_free: true })),
        10..=12 => Base::Filters { seed: r.next_u64() },
        13..=15 if !names.is_empty() => Base::Fixture { name: names[r.usize_below(names.len())].clone() },
        13..=17 => Base::Skeleton { seed: r.next_u64() },
        _ => Base::Random { len: r.usize_below(2048), seed: r.next_u64() },
    };
    // header-field sweep (one case in four): a small synthetic file that has an xref stream and an
    // object stream, stored intact except for ONE numeric dictionary slot of a key it really contains,
    // set to a machine-integer boundary, read through a fault-free source
    let sweep = r.chance(1, 4);
    let base = if sweep {
        // half of them single-revision, so that nothing redefines the compressed objects later
        let max_updates = if r.chance(1, 2) { 0 } else { 2 };
        let mut spec = gen_spec(&mut r, &GenOpts { max_updates, allow_objstm: true, allow_xref_stream: true, allow_free: true });
        for _ in 0..24 {
            if spec.revisions.iter().any(|rev| rev.xref_stream && rev.ops.iter().any(|o| matches!(o, crate::synth::ObjOp::Define { in_objstm: true, .. }))) {
                break;
            }
            spec = gen_spec(&mut r, &GenOpts { max_updates, allow_objstm: true, allow_xref_stream: true, allow_free: true });
        }
        Base::Synth(spec)
    } else {
        base
    };
    let structured = !matches!(base, Base::Random { .. });
    let approx_len = match &base {
        Base::Random { len, .. } => *len,
        _ => 4096,
    };
    // the base may be produced by library code (the writer): run it under an owned environment,
    // or the real clock (dates inside compressed streams) would leak into the generated case
    let (len_for_pos, present) = {
        let b2 = base.clone();
        let o = in_case_thread(ctx, &ProcEnv::fixed(mix(cs, 0x6c656e)), 120_000, move |out| {
            if let Ok(b) = build_base(&b2) {
                out.bump("len", b.len() as u64);
                let mut mask = 0u64;
                for (i, k) in KEYS.iter().enumerate() {
                    if count_occ(&b, format!("/{}", k).as_bytes()) > 0 {
                        mask |= 1 << i;
                    }
                }
                out.bump("keys", mask);
            }
        });
        let mask = o.counters.get("keys").copied().unwrap_or(0);
        (o.counters.get("len").map(|l| *l as usize).unwrap_or(approx_len), (0..KEYS.len()).filter(|i| mask >> i & 1 == 1).collect::<Vec<usize>>())
    };
    // swarm: per case either no stored fault (the intact corpus file) or 1–4 of them
    let nm = match r.below(10) {
        0 => 0,
        1..=5 => 1,
        6..=7 => 2,
        8 => 3,
        _ => 4,
    };
    let mutations: Vec<Mutation> = if sweep && !present.is_empty() {
        let k = present[r.usize_below(present.len())];
        vec![Mutation::KeySlot { key: KEYS[k].to_string(), nth: r.usize_below(16), value: BOUNDARY[r.usize_below(BOUNDARY.len())].to_string() }]
    } else {
        (0..nm).map(|_| gen_mutation(&mut r, len_for_pos, structured, &present)).collect()
    };
    let mode = match r.below(10) {
        0..=5 => 0,
        6..=7 => 1,
        _ => 2,
    };
    let source = if sweep { SourcePlan::default() } else { gen_source_plan(&mut r, mode, 80, len_for_pos as u64) };
    Case {
        base,
        mutations,
        presets: PRESETS.iter().map(|s| s.to_string()).collect(),
        source,
        clock_jump_at: if r.chance(1, 12) { 1 + r.below(40) } else { 0 },
        entropy_seed: r.next_u64(),
        passwords,
    }
}

// ------------------------------------------------------------------ navigation

fn object_numbers(img: &[u8]) -> Vec<(u32, u16)> {
    // every "N G obj" the image mentions (harness-side scan), capped
    let mut v = vec![];
    let mut i = 0;
    while i + 3 <= img.len() && v.len() < 200 {
        if &img[i..i + 3] == b"obj" && i >= 4 && img[i - 1] == b' ' {
            let mut j = i - 1;
            let mut parts = vec![];
            for _ in 0..2 {
                while j > 0 && img[j - 1] == b' ' {
                    j -= 1;
                }
                let e = j;
                while j > 0 && img[j - 1].is_ascii_digit() {
                    j -= 1;
                }
                parts.push(std::str::from_utf8(&img[j..e]).unwrap_or("").to_string());
            }
            if let (Ok(g), Ok(n)) = (parts[0].parse::<u32>(), parts[1].parse::<u32>()) {
                v.push((n, (g & 0xFFFF) as u16));
            }
        }
        i += 1;
    }
    // objects that live only inside object streams have no header in the image: also ask for every
    // small object number the file does not mention
    let top = v.iter().map(|(n, _)| *n).filter(|n| *n < 96).max().unwrap_or(0) + 8;
    for n in 0..=top.min(96) {
        if !v.iter().any(|(m, _)| *m == n) {
            v.push((n, 0));
        }
    }
    v.sort();
    v.dedup();
    v
}

fn navigate(image: Arc<Vec<u8>>, preset_name: &str, plan: &SourcePlan, objs: &[(u32, u16)], passwords: &[String], out: &mut Outcome) {
    let (src, stats) = SimSource::new(image, plan.clone());
    let mut h = fnv1a(preset_name.as_bytes());
    let opened = PdfReader::new_with_options(src, preset(preset_name));
    match opened {
        Err(e) => {
            h = fnv1a_more(h, format!("{:?}", std::mem::discriminant(&e)).as_bytes());
            out.bump("open_err", 1);
        }
        Ok(mut rd) => {
            out.bump("probe.opened", 1);
            if rd.is_encrypted() {
                out.bump("probe.encrypted_input", 1);
                let _ = rd.unlock_with_password("");
                let _ = rd.unlock_with_password("user");
                for pw in passwords {
                    if let Ok(true) = rd.unlock_with_password(pw) {
                        out.bump("probe.encrypted_input_unlocked", 1);
                        break;
                    }
                }
            }
            let _ = rd.metadata();
            let doc = rd.into_document();
            let n = match doc.page_count() {
                Ok(n) => n,
                Err(_) => 0,
            };
            h = fnv1a_more(h, &n.to_le_bytes());
            if n > 0 {
                out.bump("probe.has_pages", 1);
            }
            for pi in 0..n.min(64) {
                if let Ok(page) = doc.get_page(pi) {
                    let _ = doc.get_page_resources(&page);
                    if let Ok(streams) = doc.get_page_content_streams(&page) {
                        for s in &streams {
                            h = fnv1a_more(h, &(s.len() as u64).to_le_bytes());
                            if let Ok(ops) = ContentParser::parse_content(s) {
                                out.bump("probe.content_parsed", 1);
                                h = fnv1a_more(h, &(ops.len() as u64).to_le_bytes());
                            }
                        }
                    }
                    let _ = doc.get_page_annotations(pi);
                    match doc.extract_text_from_page_with_options(pi, oxidize_pdf::text::ExtractionOptions::default()) {
                        Ok(t) => {
                            if !t.text.is_empty() {
                                out.bump("probe.text_extracted", 1);
                            }
                            h = fnv1a_more(h, t.text.as_bytes());
                        }
                        Err(_) => out.bump("extract_err", 1),
                    }
                }
            }
            for (n, g) in objs {
                match doc.get_object(*n, *g) {
                    Ok(o) => {
                        if let PdfObject::Stream(s) = &o {
                            match doc.decode_stream(s) {
                                Ok(d) => {
                                    out.bump("probe.stream_decoded", 1);
                                    h = fnv1a_more(h, &(d.len() as u64).to_le_bytes());
                                }
                                Err(_) => out.bump("decode_err", 1),
                            }
                        }
                    }
                    Err(_) => out.bump("get_object_err", 1),
                }
            }
        }
    }
    let st = stats.lock().unwrap().clone();
    bump_io(out, "src_", &st);
    if st.budget_exceeded {
        out.violate(
            "unbounded-io-steps",
            format!("preset {}: more than 2,000,000 + 200 x image-length read/seek calls (highest offset touched {}); the source then failed them, a real file would keep the reader busy", preset_name, st.max_off),
        );
    }
    out.digest = mix(out.digest, h);
    out.log_digest = mix(out.log_digest, mix(h, st.log));
}

fn image_of(c: &Case, out: &mut Outcome) -> Option<Vec<u8>> {
    let mut img = match build_base(&c.base) {
        Ok(i) => i,
        Err(_) => {
            out.bump("skipped.unbuildable_base", 1);
            return None;
        }
    };
    for m in &c.mutations {
        if apply_mutation(&mut img, m) {
            out.bump(&format!("fault.stored.{}", kind_of(m)), 1);
        } else {
            out.bump("stored_fault_noop", 1);
        }
    }
    Some(img)
}

impl Property for C01 {
    fn id(&self) -> &'static str {
        "C01"
    }
    fn engine(&self) -> Engine {
        Engine::Disk
    }
    fn cases(&self, tier: Tier) -> u64 {
        match tier {
            Tier::Quick => 8_000,
            Tier::Thorough => 300_000,
        }
    }
    fn gen(&self, cs: u64, tier: Tier, ctx: &ExecCtx) -> Value {
        serde_json::to_value(gen_case(cs, tier, ctx)).unwrap()
    }
    fn exec(&self, case: &Value, ctx: &ExecCtx) -> Outcome {
        let c: Case = match serde_json::from_value(case.clone()) {
            Ok(c) => c,
            Err(e) => {
                let mut o = Outcome::default();
                o.violate("harness-bad-case", e.to_string());
                return o;
            }
        };
        // build the image (library code may run: its own thread, own environment)
        let c0 = c.clone();
        let mut total = in_case_thread(ctx, &ProcEnv::fixed(c.entropy_seed), 60_000, move |out| {
            if let Some(img) = image_of(&c0, out) {
                out.bump("image_bytes", img.len() as u64);
                out.refined = Some(Value::String(hex(&img)));
            }
        });
        if total.violation.is_some() {
            // the corpus builder itself misbehaved (library writer panicked): report as such
            if let Some(v) = &mut total.violation {
                v.class = format!("corpus-builder-{}", v.class);
            }
            return total;
        }
        let img = match total.refined.take() {
            Some(Value::String(h)) => Arc::new(unhex(&h)),
            _ => return total,
        };
        if img.len() > 400 * 1024 {
            // keep images small; (the 6 MB files the writer produces for xref-stream + no-compression
            // configurations are a writer finding, see C02/C03)
            total.bump("skipped.image_too_large", 1);
            return total;
        }
        let objs = object_numbers(&img);
        if let Ok(p) = std::env::var("VERIF_DUMP_IMAGE") {
            let _ = std::fs::write(p, &**img); // debugging aid: the stored image of an explicit case
        }
        total.bump(&format!("base.{}", format!("{:?}", c.base).split(|ch: char| !ch.is_alphanumeric()).next().unwrap_or("?")), 1);
        total.nontrivial = true;
        total.digest = fnv1a(&img);
        for p in &c.presets {
            let mut env = ProcEnv::fixed(mix(c.entropy_seed, fnv1a(p.as_bytes())));
            if c.clock_jump_at > 0 {
                // 121 s forward at the n-th clock read: the parser's 120 s wall-clock timeout fires
                env.clock_jump_at = c.clock_jump_at;
                env.clock_jump_ns = 121_000_000_000;
                env.clock_step_ns = 1_000;
            }
            let (img2, plan, objs2, p2, pws) = (img.clone(), c.source.clone(), objs.clone(), p.clone(), c.passwords.clone());
            let o = in_case_thread(ctx, &env, CPU_LIMIT_MS, move |out| navigate(img2, &p2, &plan, &objs2, &pws, out));
            for (k, v) in &o.counters {
                if k.starts_with("max.") {
                    let cur = total.counters.get(k).copied().unwrap_or(0);
                    total.counters.insert(k.clone(), cur.max(*v));
                } else {
                    total.bump(k, *v);
                }
            }
            total.sim_steps += o.sim_steps;
            total.sim_ns += o.sim_ns;
            total.digest = mix(total.digest, o.digest);
            total.log_digest = mix(total.log_digest, o.log_digest);
            if let Some(v) = o.violation {
                if total.violation.is_none() {
                    total.violation = Some(Violation { class: v.class, detail: format!("[preset {}] {}", p, v.detail) });
                    // make the failing case explicit: only the failing preset
                    let mut nc = c.clone();
                    nc.presets = vec![p.clone()];
                    total.refined = Some(serde_json::to_value(&nc).unwrap());
                }
                if o.counters.get("fatal").copied().unwrap_or(0) > 0 {
                    break;
                }
            }
        }
        total
    }
    fn shrink(&self, case: &Value) -> Vec<Value> {
        let c: Case = match serde_json::from_value(case.clone()) {
            Ok(c) => c,
            Err(_) => return vec![],
        };
        let mut v = vec![];
        let push = |n: Case, v: &mut Vec<Value>| v.push(serde_json::to_value(&n).unwrap());
        if c.presets.len() > 1 {
            for p in &c.presets {
                let mut n = c.clone();
                n.presets = vec![p.clone()];
                push(n, &mut v);
            }
        }
        if !c.source.is_faultless() {
            let mut n = c.clone();
            n.source = SourcePlan::default();
            push(n, &mut v);
        }
        if c.clock_jump_at > 0 {
            let mut n = c.clone();
            n.clock_jump_at = 0;
            push(n, &mut v);
        }
        for i in 0..c.mutations.len() {
            let mut n = c.clone();
            n.mutations.remove(i);
            push(n, &mut v);
        }
        match &c.base {
            Base::Hex(h) => {
                // ddmin over byte ranges: remove halves, quarters, … of the explicit image
                let bytes = unhex(h);
                let len = bytes.len();
                let mut chunk = len / 2;
                while chunk >= 8 && v.len() < 120 {
                    let mut s = 0;
                    while s < len {
                        let e = (s + chunk).min(len);
                        let mut b2 = bytes[..s].to_vec();
                        b2.extend_from_slice(&bytes[e..]);
                        let mut n = c.clone();
                        n.base = Base::Hex(hex(&b2));
                        push(n, &mut v);
                        s = e;
                    }
                    chunk /= 2;
                }
            }
            other => {
                // make the image explicit (same bytes, so the violation persists), then ddmin applies
                if let Ok(mut img) = build_base(other) {
                    for m in &c.mutations {
                        apply_mutation(&mut img, m);
                    }
                    if img.len() <= 200_000 {
                        let mut n = c.clone();
                        n.base = Base::Hex(hex(&img));
                        n.mutations = vec![];
                        push(n, &mut v);
                    }
                }
            }
        }
        v
    }
    fn sample(&self, case: &Value) -> Value {
        truncate_json(case, 120)
    }
    fn describe(&self) -> Describe {
        Describe {
            rule: "one case in four is a header-field sweep (small synthetic file with an xref stream and an object stream, exactly one numeric dictionary slot of a key the file contains set to a machine-integer boundary, fault-free source); otherwise case = seed image (library writer output for a generated authoring program under one of 10 writer configurations | the same encrypted (RC4/AES, the real passwords are tried) | library output followed by incremental form fills and note additions (multi-revision; truncation gives torn appends) | synthetic 1-5 revision file with object/xref streams and free entries | stream objects carrying every filter name, chains and adversarial /DecodeParms | a repository fixture <= 64 KiB | grammar-generated PDF skeleton | random bytes) + 0-4 stored-image faults (truncate, bit flip, byte overwrite, zeroed/duplicated/swapped blocks, splice, boundary integer in a /Key slot or in the n-th integer token, dictionary/string injections) + a source plan (fault-free | short reads | EINTR / I/O error / seek error / early EOF) + optionally a +121 s clock jump at the n-th clock read; run under strict, default, tolerant(=lenient) and skip_errors, each on a fresh thread: open, metadata, page count, every page (<=64): resources, content streams, ContentParser, annotations, text extraction; every object number the image mentions: get_object and decode_stream. Oracles: no panic (debug assertions and overflow checks on), no process death, <= 2,000,000 I/O calls per open+navigate, <= 120 s CPU per preset, no single allocation > 1 GiB, live heap <= 2 GiB. non-trivial = every case (an image was produced); distinct = digest of (image bytes, observable results).".into(),
            assumptions: vec![
                "'lenient' is an alias of 'tolerant' in the library (ParseOptions::lenient() returns tolerant()), so it is run once".into(),
                "thresholds standing for 'unbounded' (120 s CPU, 1 GiB single allocation, 2 GiB live, 2e6 I/O calls) sit >= 100x above what a healthy case needs (about 1 ms, a few MiB, a few hundred calls)".into(),
                "images are <= 64 KiB in the quick tier, <= 300 KiB in the thorough tier".into(),
            ],
            real_components: vec!["parser::{reader, xref, xref_stream, lexer, objects, filters, object_stream, page_tree, stack_safe, content}".into(), "text::extraction".into(), "writer (corpus builder)".into()],
            stub_components: vec!["byte source: SimSource".into(), "clock / entropy / pid: libsim.so".into(), "allocator: tracking allocator with ceilings".into()],
            fault_kinds: vec![
                "stored: truncate, bitflip, overwrite_byte, zero_block, dup_block, swap_blocks, splice, numeric_slot_key, numeric_slot_int_token, insert_in_dict, string_escape".into(),
                "source: short_read, eintr, io_error, seek_error, early_eof".into(),
                "process: clock_jump(+121 s), allocator ceilings".into(),
            ],
            level: "exploration",
            exhaustive_note: None,
        }
    }
}
