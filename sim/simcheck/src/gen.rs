//! Authoring-program generator: a seeded, explicit, replayable list of public-API calls that
//! builds a `Document`. Shared by C02/C03/C05/C17/C19/C20 and C01's corpus.

use crate::common::*;
use oxidize_pdf::graphics::{Color, ColorSpace, Image, LineCap, LineJoin};
use oxidize_pdf::text::Font;
use oxidize_pdf::writer::WriterConfig;
use oxidize_pdf::{Document, Page};
use serde::{Deserialize, Serialize};

#[derive(Clone, Debug, Serialize, Deserialize, PartialEq)]
pub enum DocOp {
    /// start a new page (everything after applies to it)
    NewPage { w: f64, h: f64, rotation: i32 },
    Text { font: u8, size: f64, x: f64, y: f64, text: String },
    Rect { x: f64, y: f64, w: f64, h: f64, rgb: [f64; 3], mode: u8 },
    Path { pts: Vec<[f64; 2]>, curve: bool, close: bool, gray: f64, width: f64 },
    LineState { width: f64, cap: u8, join: u8 },
    /// q <cm> rect Q
    Transformed { m: [f64; 6], x: f64, y: f64, w: f64, h: f64 },
    Circle { cx: f64, cy: f64, r: f64, cmyk: [f64; 4] },
    Image { name: String, w: u32, h: u32, gray: bool, seed: u64, x: f64, y: f64, dw: f64, dh: f64 },
    Info { title: Option<String>, author: Option<String>, subject: Option<String>, keywords: Option<String> },
    /// fill/stroke opacity (an ExtGState resource)
    Opacity { fill: f64, stroke: f64 },
    Pattern { name: String, step: f64 },
    Shading { name: String, x0: f64, y0: f64, x1: f64, y1: f64, rgb0: [f64; 3], rgb1: [f64; 3] },
    FormX { name: String, w: f64, h: f64 },
    Note { x: f64, y: f64, contents: String },
    /// AcroForm field with a widget on the current page: kind 0 text, 1 checkbox
    Field { name: String, value: String, kind: u8, x: f64, y: f64 },
    /// document outline: one item per title, pointing at page (index mod page count)
    Outline { titles: Vec<String> },
    /// ICC-based colour spaces registered on the current page (each is an indirect profile stream)
    IccSpaces { names: Vec<String> },
    /// document-level extras: page-label ranges, viewer preferences, named destinations
    Extras { labels: Vec<(u32, u8, String)>, prefs: u8, dests: Vec<String> },
    /// a polyline stroked with whatever stroke colour and width are current (no colour call)
    StrokeOnly { pts: Vec<[f64; 2]> },
    /// text in an embedded TrueType font (the repository's own test-pdfs/Roboto-Regular.ttf):
    /// exercises font embedding, subsetting, widths and the ToUnicode CMap
    CustomText { size: f64, x: f64, y: f64, text: String },
}

#[derive(Clone, Debug, Serialize, Deserialize, PartialEq)]
pub struct Program {
    pub ops: Vec<DocOp>,
}

#[derive(Clone, Debug, Serialize, Deserialize, PartialEq)]
pub struct WCfg {
    pub xref_streams: bool,
    pub object_streams: bool,
    pub compress: bool,
    pub version: String,
}

impl WCfg {
    pub fn to_config(&self) -> WriterConfig {
        WriterConfig {
            use_xref_streams: self.xref_streams,
            use_object_streams: self.object_streams,
            pdf_version: self.version.clone(),
            compress_streams: self.compress,
            incremental_update: false,
        }
    }
    pub fn classic(compress: bool) -> WCfg {
        WCfg { xref_streams: false, object_streams: false, compress, version: "1.7".into() }
    }
    pub fn label(&self) -> String {
        format!(
            "{}{}{}-{}",
            if self.xref_streams { "xs" } else { "tbl" },
            if self.object_streams { "+os" } else { "" },
            if self.compress { "+z" } else { "" },
            self.version
        )
    }
}

/// All writer configurations the property quantifies over.
pub fn all_configs() -> Vec<WCfg> {
    let mut v = vec![];
    for compress in [false, true] {
        v.push(WCfg { xref_streams: false, object_streams: false, compress, version: "1.4".into() });
        v.push(WCfg { xref_streams: false, object_streams: false, compress, version: "1.7".into() });
        v.push(WCfg { xref_streams: true, object_streams: false, compress, version: "1.5".into() });
        v.push(WCfg { xref_streams: true, object_streams: true, compress, version: "1.5".into() });
        v.push(WCfg { xref_streams: true, object_streams: true, compress, version: "1.7".into() });
    }
    v
}

pub const FONTS: [Font; 12] = [
    Font::Helvetica,
    Font::HelveticaBold,
    Font::HelveticaOblique,
    Font::HelveticaBoldOblique,
    Font::TimesRoman,
    Font::TimesBold,
    Font::TimesItalic,
    Font::TimesBoldItalic,
    Font::Courier,
    Font::CourierBold,
    Font::CourierOblique,
    Font::CourierBoldOblique,
];

fn r2(x: f64) -> f64 {
    (x * 100.0).round() / 100.0
}

/// A path/rectangle operand: usually an ordinary page coordinate, one time in five a value from the
/// edges of the number formatter's domain (negative, strictly between -1 and 0, tiny, large, integral).
fn coord(r: &mut Rng, max: f64) -> f64 {
    if r.chance(4, 5) {
        return r2(r.below(max as u64) as f64);
    }
    match r.below(8) {
        0 => -r2(r.below(100) as f64 / 100.0),          // (-1, 0]
        1 => r2(r.below(100) as f64 / 100.0),           // [0, 1)
        2 => -r2(1.0 + r.below(500) as f64 + r.below(100) as f64 / 100.0),
        3 => *r.pick(&[-0.01, 0.01, -0.5, 0.5, -0.99, 0.99, -1.0, 1.0, -1.01]),
        4 => r2(1000.0 + r.below(99000) as f64 + 0.75),
        5 => -r2(1000.0 + r.below(99000) as f64 + 0.25),
        6 => r.below(max as u64) as f64 + *r.pick(&[0.05, 0.1, 0.95, 0.99, 0.01]),
        _ => 0.0,
    }
}

const WORDS: [&str; 24] = [
    "alpha", "beta", "gamma", "delta", "invoice", "total", "Section", "page", "lorem", "ipsum", "42", "3.14", "PDF", "xref",
    "obj", "endobj", "stream", "Hello", "World", "quick", "brown", "fox", "jumps", "over",
];

pub fn gen_text(r: &mut Rng, tricky: bool) -> String {
    let n = 1 + r.usize_below(5);
    let mut s = String::new();
    for i in 0..n {
        if i > 0 {
            s.push(' ');
        }
        s.push_str(*r.pick(&WORDS));
        if tricky && r.chance(1, 3) {
            s.push_str(*r.pick(&["(", ")", "\\", "((", "))", "\\(", "/", "<", ">", "[", "]", "%", "#", "{", "}", "é", "ü", "ß", "©"]));
        }
    }
    s
}

pub struct GenProgOpts {
    pub max_pages: usize,
    pub tricky_text: bool,
    pub images: bool,
    /// allow images up to 160x160 (files of 50-300 KiB)
    pub big_images: bool,
    /// also use patterns, shadings, ExtGStates, form XObjects, annotations, form fields, outline
    pub rich: bool,
    /// user-chosen resource and field names containing PDF delimiters, whitespace and non-ASCII
    pub tricky_names: bool,
}

/// 100-260 tiny pages appended to a program (so that the writer needs more than one object stream,
/// more than 255 objects, a deeper page list …).
pub fn add_many_pages(r: &mut Rng, p: &mut Program) {
    let n = 100 + r.usize_below(161);
    for i in 0..n {
        p.ops.push(DocOp::NewPage { w: 200.0, h: 100.0 + (i % 7) as f64, rotation: if i % 11 == 0 { 90 } else { 0 } });
        if i % 3 == 0 {
            p.ops.push(DocOp::Text { font: (i % 12) as u8, size: 10.0, x: 10.0, y: 20.0, text: format!("page {}", i) });
        }
    }
}

/// Bytes of the TrueType font used by `DocOp::CustomText` (read from the repository under test).
pub fn custom_font_bytes() -> Option<Vec<u8>> {
    let repo = std::env::var("VERIF_REPO").unwrap_or_else(|_| "/repo".into());
    std::fs::read(std::path::Path::new(&repo).join("test-pdfs/Roboto-Regular.ttf")).ok()
}

#[derive(Clone, Debug, Serialize, Deserialize, PartialEq)]
pub struct EncSpec {
    /// 0 RC4-40, 1 RC4-128, 2 AES-128, 3 AES-256
    pub strength: u8,
    pub user: String,
    pub owner: String,
    pub perm_bits: u32,
}

pub fn gen_password(r: &mut Rng) -> String {
    match r.below(14) {
        // lengths around every boundary a security handler knows (32 bytes for revisions 2-4, 127 bytes
        // for revisions 5/6), in ASCII and with a multi-byte character straddling the boundary
        11 => { let n = [31usize, 32, 33, 126, 127, 128, 129, 200, 255, 256][r.below(10) as usize]; (0..n).map(|i| (b'a' + (i % 26) as u8) as char).collect() }
        12 => { let n = [31usize, 126, 127][r.below(3) as usize]; let mut s: String = (0..n).map(|i| (b'A' + (i % 26) as u8) as char).collect(); s.push_str("\u{e9}\u{65e5}tail"); s }
        13 => { let n = r.below(300) as usize; (0..n).map(|i| if i % 7 == 3 { '\u{f1}' } else { (b'0' + (i % 10) as u8) as char }).collect() }
        // longer than 32 bytes with a multi-byte character straddling byte 32 (revisions 2-4 use the
        // first 32 BYTES of the password)
        7 => format!("a{}", "\u{e9}".repeat(20)),
        8 => "\u{65e5}\u{672c}\u{8a9e}".repeat(4),
        // exactly 32 bytes, and 33
        9 => "0123456789abcdef0123456789abcdef".into(),
        10 => "0123456789abcdef0123456789abcdefX".into(),
        0 => String::new(),
        1 => "user".into(),
        2 => "pässwörd-ñ-日本".into(),
        3 => "a-password-that-is-definitely-longer-than-thirty-two-bytes-0123456789".into(),
        4 => "p(w)\\d".into(),
        5 => format!("pw{}", r.below(100000)),
        _ => " leading and trailing space ".into(),
    }
}

pub fn gen_enc(r: &mut Rng) -> EncSpec {
    let user = gen_password(r);
    let owner = if r.chance(1, 4) { user.clone() } else { gen_password(r) };
    EncSpec { strength: r.below(4) as u8, user, owner, perm_bits: if r.chance(1, 3) { 0xFFFF_FFFF } else { r.next_u64() as u32 } }
}

pub fn apply_encryption(doc: &mut Document, e: &EncSpec) {
    use oxidize_pdf::document::{DocumentEncryption, EncryptionStrength};
    use oxidize_pdf::encryption::Permissions;
    let strength = match e.strength % 4 {
        0 => EncryptionStrength::Rc4_40bit,
        1 => EncryptionStrength::Rc4_128bit,
        2 => EncryptionStrength::Aes128,
        _ => EncryptionStrength::Aes256,
    };
    doc.set_encryption(DocumentEncryption::new(e.user.clone(), e.owner.clone(), Permissions::from_bits(e.perm_bits), strength));
}

pub const TRICKY_NAMES: [&str; 14] = ["Im 1", "Im(1)", "Im/1", "Im#1", "Im%1", "Im<1>", "Im[1]", "Im{1}", "Imé", "Im\t1", "Im#41", "Im\n", "", "日本"];


pub fn gen_program(r: &mut Rng, o: &GenProgOpts) -> Program {
    let mut ops = vec![];
    if r.chance(2, 3) {
        ops.push(DocOp::Info {
            title: if r.chance(2, 3) { Some(gen_text(r, o.tricky_text)) } else { None },
            author: if r.chance(1, 2) { Some(gen_text(r, o.tricky_text)) } else { None },
            // (an empty string is a legal value and a classic edge for per-string encryption)
            subject: if r.chance(1, 3) { Some(if r.chance(1, 4) { String::new() } else { gen_text(r, o.tricky_text) }) } else { None },
            keywords: if r.chance(1, 3) { Some(gen_text(r, false)) } else { None },
        });
    }
    let pages = 1 + r.usize_below(o.max_pages);
    let mut img_n = 0;
    let mut rich_n = 0;
    let mut last_img: Option<(u32, u32, bool)> = None;
    for _ in 0..pages {
        let (w, h) = *r.pick(&[(595.0, 842.0), (612.0, 792.0), (842.0, 595.0), (300.0, 300.0), (612.0, 1008.0), (100.5, 200.25)]);
        ops.push(DocOp::NewPage { w, h, rotation: *r.pick(&[0, 0, 0, 90, 180, 270]) });
        let n = r.usize_below(8);
        // image resource names are unique per page but deliberately repeat across pages
        img_n = 0;
        for _ in 0..n {
            let x = r2(r.below(w as u64) as f64 + 0.5);
            let y = r2(r.below(h as u64) as f64 + 0.25);
            if r.chance(1, 6) {
                let k = 2 + r.usize_below(3);
                ops.push(DocOp::StrokeOnly { pts: (0..k).map(|_| [coord(r, w), coord(r, h)]).collect() });
            }
            let op = match r.below(if o.images { 9 } else { 8 }) {
                0..=2 => DocOp::Text { font: r.below(12) as u8, size: *r.pick(&[8.0, 10.0, 12.0, 14.5, 24.0]), x, y, text: gen_text(r, o.tricky_text) },
                3 => DocOp::Rect {
                    x: if r.chance(1, 4) { coord(r, w) } else { x },
                    y: if r.chance(1, 4) { coord(r, h) } else { y },
                    w: if r.chance(1, 5) { coord(r, 200.0) } else { r2(1.0 + r.below(200) as f64) },
                    h: if r.chance(1, 5) { coord(r, 100.0) } else { r2(1.0 + r.below(100) as f64) },
                    rgb: [r2(r.below(101) as f64 / 100.0), r2(r.below(101) as f64 / 100.0), r2(r.below(101) as f64 / 100.0)],
                    mode: r.below(3) as u8,
                },
                4 => {
                    let k = 2 + r.usize_below(4);
                    let curve = r.chance(1, 3);
                    let k = if curve { 1 + 3 * (1 + r.usize_below(2)) } else { k };
                    DocOp::Path {
                        pts: (0..k).map(|_| [coord(r, w), coord(r, h)]).collect(),
                        curve,
                        close: r.chance(1, 2),
                        gray: r2(r.below(101) as f64 / 100.0),
                        width: *r.pick(&[0.5, 1.0, 2.0, 3.25]),
                    }
                }
                5 => DocOp::LineState { width: *r.pick(&[0.25, 1.0, 2.5, 10.0]), cap: r.below(3) as u8, join: r.below(3) as u8 },
                6 => DocOp::Transformed {
                    m: [*r.pick(&[1.0, 0.5, 2.0, 0.0]), *r.pick(&[0.0, 1.0, -1.0]), *r.pick(&[0.0, -1.0, 0.5]), *r.pick(&[1.0, 0.5, 2.0]), x, y],
                    x: if r.chance(1, 3) { coord(r, 20.0) } else { 0.0 },
                    y: if r.chance(1, 3) { coord(r, 20.0) } else { 0.0 },
                    w: r2(5.0 + r.below(50) as f64),
                    h: r2(5.0 + r.below(50) as f64),
                },
                7 => DocOp::Circle {
                    cx: if r.chance(1, 4) { coord(r, w) } else { x },
                    cy: if r.chance(1, 4) { coord(r, h) } else { y },
                    r: if r.chance(1, 4) { *r.pick(&[0.5, 0.25, 1.0, 0.75]) } else { r2(1.0 + r.below(80) as f64) },
                    cmyk: [r2(r.below(101) as f64 / 100.0), r2(r.below(101) as f64 / 100.0), 0.0, r2(r.below(101) as f64 / 100.0)],
                },
                _ => {
                    img_n += 1;
                    let (iw, ih, ig) = match last_img {
                        Some(t) if r.chance(1, 2) => t, // same geometry as an earlier image, other samples
                        _ => (
                            if o.big_images && r.chance(1, 2) { 60 + r.below(100) as u32 } else { 1 + r.below(12) as u32 },
                            if o.big_images && r.chance(1, 2) { 60 + r.below(100) as u32 } else { 1 + r.below(12) as u32 },
                            r.chance(1, 2),
                        ),
                    };
                    last_img = Some((iw, ih, ig));
                    DocOp::Image {
                        name: if o.tricky_names && r.chance(1, 2) { format!("{}{}", TRICKY_NAMES[r.usize_below(TRICKY_NAMES.len())], img_n) } else { format!("Im{}", img_n) },
                        w: iw,
                        h: ih,
                        gray: ig,
                        seed: r.next_u64(),
                        x,
                        y,
                        dw: r2(10.0 + r.below(100) as f64),
                        dh: r2(10.0 + r.below(100) as f64),
                    }
                }
            };
            ops.push(op);
        }
        if o.rich {
            let k = r.usize_below(5);
            for j in 0..k {
                let x = r2(r.below(w as u64) as f64);
                let y = r2(r.below(h as u64) as f64);
                rich_n += 1;
                let op = match r.below(6) {
                    0 => DocOp::Opacity { fill: *r.pick(&[0.25, 0.5, 0.75, 1.0]), stroke: *r.pick(&[0.3, 0.6, 1.0]) },
                    1 => DocOp::Pattern { name: if o.tricky_names && r.chance(1, 3) { format!("{}{}", TRICKY_NAMES[r.usize_below(TRICKY_NAMES.len())], rich_n) } else { format!("P{}", rich_n) }, step: *r.pick(&[5.0, 10.0, 12.5]) },
                    2 => DocOp::Shading {
                        name: format!("Sh{}", rich_n),
                        x0: x,
                        y0: y,
                        x1: r2(x + 50.0),
                        y1: r2(y + 20.0),
                        rgb0: [1.0, 0.0, r2(r.below(101) as f64 / 100.0)],
                        rgb1: [0.0, r2(r.below(101) as f64 / 100.0), 1.0],
                    },
                    3 if r.chance(1, 3) => DocOp::IccSpaces { names: (0..2 + r.usize_below(4)).map(|i| format!("ICC{}x{}", rich_n, i)).collect() },
                    3 => DocOp::FormX { name: format!("Fm{}", rich_n), w: r2(10.0 + r.below(90) as f64), h: r2(10.0 + r.below(90) as f64) },
                    4 if r.chance(1, 2) => DocOp::CustomText { size: *r.pick(&[9.0, 12.0, 18.0]), x, y, text: format!("{} \u{e9}\u{f1} {}", gen_text(r, false), r.below(1000)) },
                    4 => DocOp::Note { x, y, contents: if r.chance(1, 8) { String::new() } else { gen_text(r, o.tricky_text) } },
                    _ => DocOp::Field {
                        name: if o.tricky_names && r.chance(1, 2) { format!("{}.f{}_{}", TRICKY_NAMES[r.usize_below(TRICKY_NAMES.len())], rich_n, j) } else { format!("field_{}_{}", rich_n, j) },
                        value: if r.chance(1, 8) { String::new() } else { gen_text(r, o.tricky_text) },
                        kind: r.below(2) as u8,
                        x,
                        y,
                    },
                };
                ops.push(op);
            }
        }
    }
    if o.rich && r.chance(1, 3) {
        let nl = 1 + r.usize_below(3);
        ops.push(DocOp::Extras {
            labels: (0..nl).map(|i| (i as u32, r.below(5) as u8, if r.chance(1, 2) { format!("P{}-", i) } else { String::new() })).collect(),
            prefs: r.below(64) as u8,
            dests: (0..r.usize_below(5)).map(|i| format!("dest{}{}", i, r.below(100))).collect(),
        });
    }
    if o.rich && r.chance(1, 2) {
        let n = 1 + r.usize_below(4);
        ops.push(DocOp::Outline { titles: (0..n).map(|_| gen_text(r, o.tricky_text)).collect() });
    }
    Program { ops }
}

pub fn image_bytes(w: u32, h: u32, gray: bool, seed: u64) -> Vec<u8> {
    let n = (w * h) as usize * if gray { 1 } else { 3 };
    Rng::new(seed).bytes(n)
}

/// Apply the program through the public authoring API.
pub fn build_document(p: &Program) -> Result<Document, String> {
    let mut doc = Document::new();
    let mut cur: Option<Page> = None;
    let mut fm: Option<oxidize_pdf::forms::FormManager> = None;
    if p.ops.iter().any(|o| matches!(o, DocOp::CustomText { .. })) {
        let bytes = custom_font_bytes().ok_or_else(|| "custom font file missing".to_string())?;
        doc.add_font_from_bytes("Roboto", bytes).map_err(|e| format!("add_font_from_bytes: {}", e))?;
    }
    let mut outline: Option<Vec<String>> = None;
    let mut extras: Option<(Vec<(u32, u8, String)>, u8, Vec<String>)> = None;
    for op in &p.ops {
        match op {
            DocOp::Outline { titles } => outline = Some(titles.clone()),
            DocOp::Extras { labels, prefs, dests } => extras = Some((labels.clone(), *prefs, dests.clone())),
            DocOp::Info { title, author, subject, keywords } => {
                if let Some(t) = title {
                    doc.set_title(t.clone());
                }
                if let Some(t) = author {
                    doc.set_author(t.clone());
                }
                if let Some(t) = subject {
                    doc.set_subject(t.clone());
                }
                if let Some(t) = keywords {
                    doc.set_keywords(t.clone());
                }
            }
            DocOp::NewPage { w, h, rotation } => {
                if let Some(pg) = cur.take() {
                    doc.add_page(pg);
                }
                let mut pg = Page::new(*w, *h);
                if *rotation != 0 {
                    pg.set_rotation(*rotation);
                }
                cur = Some(pg);
            }
            other => {
                let pg = match cur.as_mut() {
                    Some(p) => p,
                    None => continue,
                };
                match other {
                    DocOp::Text { font, size, x, y, text } => {
                        pg.text()
                            .set_font(FONTS[*font as usize % 12].clone(), *size)
                            .at(*x, *y)
                            .write(text)
                            .map_err(|e| format!("text.write: {}", e))?;
                    }
                    DocOp::Rect { x, y, w, h, rgb, mode } => {
                        let g = pg.graphics();
                        g.set_fill_color(Color::rgb(rgb[0], rgb[1], rgb[2]));
                        g.set_stroke_color(Color::rgb(rgb[2], rgb[0], rgb[1]));
                        g.rect(*x, *y, *w, *h);
                        match mode % 3 {
                            0 => g.fill(),
                            1 => g.stroke(),
                            _ => g.fill_stroke(),
                        };
                    }
                    DocOp::Path { pts, curve, close, gray, width } => {
                        let g = pg.graphics();
                        g.set_stroke_color(Color::gray(*gray));
                        g.set_line_width(*width);
                        g.move_to(pts[0][0], pts[0][1]);
                        if *curve {
                            let mut i = 1;
                            while i + 2 < pts.len() {
                                g.curve_to(pts[i][0], pts[i][1], pts[i + 1][0], pts[i + 1][1], pts[i + 2][0], pts[i + 2][1]);
                                i += 3;
                            }
                        } else {
                            for p in &pts[1..] {
                                g.line_to(p[0], p[1]);
                            }
                        }
                        if *close {
                            g.close_path();
                        }
                        g.stroke();
                    }
                    DocOp::StrokeOnly { pts } => {
                        let g = pg.graphics();
                        g.move_to(pts[0][0], pts[0][1]);
                        for p in &pts[1..] {
                            g.line_to(p[0], p[1]);
                        }
                        g.stroke();
                    }
                    DocOp::LineState { width, cap, join } => {
                        let g = pg.graphics();
                        g.set_line_width(*width);
                        g.set_line_cap(match cap % 3 {
                            0 => LineCap::Butt,
                            1 => LineCap::Round,
                            _ => LineCap::Square,
                        });
                        g.set_line_join(match join % 3 {
                            0 => LineJoin::Miter,
                            1 => LineJoin::Round,
                            _ => LineJoin::Bevel,
                        });
                    }
                    DocOp::Transformed { m, x, y, w, h } => {
                        let g = pg.graphics();
                        g.save_state();
                        g.transform(m[0], m[1], m[2], m[3], m[4], m[5]);
                        g.rect(*x, *y, *w, *h);
                        g.fill();
                        g.restore_state();
                    }
                    DocOp::Circle { cx, cy, r, cmyk } => {
                        let g = pg.graphics();
                        g.set_fill_color(Color::cmyk(cmyk[0], cmyk[1], cmyk[2], cmyk[3]));
                        g.circle(*cx, *cy, *r);
                        g.fill();
                    }
                    DocOp::Image { name, w, h, gray, seed, x, y, dw, dh } => {
                        let data = image_bytes(*w, *h, *gray, *seed);
                        let img = Image::from_raw_data(data, *w, *h, if *gray { ColorSpace::DeviceGray } else { ColorSpace::DeviceRGB }, 8);
                        pg.add_image(name.clone(), img);
                        pg.draw_image(name, *x, *y, *dw, *dh).map_err(|e| format!("draw_image: {}", e))?;
                    }
                    DocOp::IccSpaces { names } => {
                        use oxidize_pdf::graphics::{IccColorSpace, IccProfile};
                        for (i, n) in names.iter().enumerate() {
                            // distinct profile bytes per name, so the streams are distinguishable
                            let data: Vec<u8> = (0..128u32).map(|k| ((k as usize * 7 + i * 31 + n.len()) % 251) as u8).collect();
                            let prof = IccProfile::new(n.clone(), data, IccColorSpace::Rgb);
                            pg.add_icc_color_space(n.clone(), &prof).map_err(|e| format!("add_icc_color_space: {}", e))?;
                        }
                    }
                    DocOp::CustomText { size, x, y, text } => {
                        pg.text().set_font(Font::Custom("Roboto".to_string()), *size).at(*x, *y).write(text).map_err(|e| format!("custom text.write: {}", e))?;
                    }
                    DocOp::Opacity { fill, stroke } => {
                        let g = pg.graphics();
                        g.set_fill_opacity(*fill);
                        g.set_stroke_opacity(*stroke);
                        g.rect(10.0, 10.0, 20.0, 20.0);
                        g.fill_stroke();
                    }
                    DocOp::Pattern { name, step } => {
                        use oxidize_pdf::graphics::{PaintType, TilingPattern, TilingType};
                        let pat = TilingPattern::new(name.clone(), PaintType::Colored, TilingType::ConstantSpacing, [0.0, 0.0, *step, *step], *step, *step)
                            .with_content_stream(b"0 0 2 2 re f".to_vec());
                        if pg.add_pattern(name.clone(), pat).is_err() {
                            continue; // the API refused the name: nothing was added
                        }
                    }
                    DocOp::Shading { name, x0, y0, x1, y1, rgb0, rgb1 } => {
                        use oxidize_pdf::graphics::{AxialShading, ShadingDefinition};
                        use oxidize_pdf::graphics::Point as ShPoint;
                        let sh = AxialShading::linear_gradient(
                            name.clone(),
                            ShPoint::new(*x0, *y0),
                            ShPoint::new(*x1, *y1),
                            Color::rgb(rgb0[0], rgb0[1], rgb0[2]),
                            Color::rgb(rgb1[0], rgb1[1], rgb1[2]),
                        );
                        pg.add_shading(name.clone(), ShadingDefinition::Axial(sh)).map_err(|e| format!("add_shading: {}", e))?;
                        pg.graphics().paint_shading(name.clone());
                    }
                    DocOp::FormX { name, w, h } => {
                        use oxidize_pdf::geometry::Rectangle;
                        use oxidize_pdf::graphics::FormXObject;
                        pg.add_form_xobject(name.clone(), FormXObject::new(Rectangle::from_position_and_size(0.0, 0.0, *w, *h)))
                            .map_err(|e| format!("add_form_xobject: {}", e))?;
                    }
                    DocOp::Note { x, y, contents } => {
                        use oxidize_pdf::annotations::TextAnnotation;
                        use oxidize_pdf::geometry::Point;
                        pg.add_annotation(TextAnnotation::new(Point::new(*x, *y)).with_contents(contents.clone()).to_annotation());
                    }
                    DocOp::Field { name, value, kind, x, y } => {
                        use oxidize_pdf::forms::{CheckBox, FormManager, TextField, Widget, WidgetAppearance};
                        use oxidize_pdf::geometry::{Point, Rectangle};
                        let m = fm.get_or_insert_with(FormManager::new);
                        let widget = Widget::new(Rectangle::new(Point::new(*x, *y), Point::new(*x + 120.0, *y + 18.0))).with_appearance(WidgetAppearance::default());
                        let r = if *kind == 0 {
                            m.add_text_field(TextField::new(name.clone()).with_value(value.clone()), widget.clone(), None)
                        } else {
                            m.add_checkbox(CheckBox::new(name.clone()), widget.clone(), None)
                        }
                        .map_err(|e| format!("add field: {}", e))?;
                        pg.add_form_widget_with_ref(widget, r).map_err(|e| format!("add_form_widget_with_ref: {}", e))?;
                    }
                    _ => {}
                }
            }
        }
    }
    if let Some(pg) = cur.take() {
        doc.add_page(pg);
    }
    if let Some(m) = fm {
        doc.set_form_manager(m);
    }
    if let Some((labels, prefs, dests)) = extras {
        use oxidize_pdf::objects::Object;
        use oxidize_pdf::page_labels::{PageLabel, PageLabelTree};
        use oxidize_pdf::structure::NamedDestinations;
        use oxidize_pdf::viewer_preferences::ViewerPreferences;
        let mut tree = PageLabelTree::new();
        for (start, style, prefix) in &labels {
            let l = match style % 5 {
                0 => PageLabel::decimal(),
                1 => PageLabel::roman_uppercase(),
                2 => PageLabel::roman_lowercase(),
                3 => PageLabel::letters_uppercase(),
                _ => PageLabel::letters_lowercase(),
            };
            let l = if prefix.is_empty() { l } else { l.with_prefix(prefix.clone()) };
            tree.add_range(*start, l);
        }
        doc.set_page_labels(tree);
        doc.set_viewer_preferences(
            ViewerPreferences::new().hide_toolbar(prefs & 1 != 0).hide_menubar(prefs & 2 != 0).fit_window(prefs & 4 != 0).center_window(prefs & 8 != 0).display_doc_title(prefs & 16 != 0).num_copies(1 + (prefs >> 5) as u32),
        );
        let mut nd = NamedDestinations::new();
        for (i, d) in dests.iter().enumerate() {
            let mut arr = oxidize_pdf::objects::Array::new();
            arr.push(Object::Integer((i % doc.page_count().max(1)) as i64));
            arr.push(Object::Name("Fit".to_string()));
            nd.add_destination(d.clone(), arr);
        }
        doc.set_named_destinations(nd);
    }
    if let Some(titles) = outline {
        use oxidize_pdf::structure::{Destination, OutlineItem, OutlineTree, PageDestination};
        let n = doc.page_count().max(1);
        let mut tree = OutlineTree::new();
        for (i, t) in titles.iter().enumerate() {
            tree.add_item(OutlineItem::new(t.clone()).with_destination(Destination::fit(PageDestination::PageNumber((i % n) as u32))));
        }
        doc.set_outline(tree);
    }
    Ok(doc)
}

/// Candidate simplifications of a program (for minimisation).
pub fn shrink_program(p: &Program) -> Vec<Program> {
    let mut v = vec![];
    // drop whole pages (a NewPage and the ops up to the next NewPage)
    let starts: Vec<usize> = p.ops.iter().enumerate().filter(|(_, o)| matches!(o, DocOp::NewPage { .. })).map(|(i, _)| i).collect();
    if starts.len() > 1 {
        for (k, s) in starts.iter().enumerate() {
            let e = starts.get(k + 1).copied().unwrap_or(p.ops.len());
            let mut n = p.clone();
            n.ops.drain(*s..e);
            v.push(n);
        }
    }
    for i in 0..p.ops.len() {
        if matches!(p.ops[i], DocOp::NewPage { .. }) {
            continue;
        }
        let mut n = p.clone();
        n.ops.remove(i);
        v.push(n);
    }
    v
}
