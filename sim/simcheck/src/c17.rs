//! C17 — incremental updates are append-only and take effect.
//! A base document written by the library is edited by a history of incremental operations (form
//! fills, text-note add/update/remove). After EVERY edit: the previous file is an exact prefix, the
//! library (through a shortening source) and the independent reader both see a valid revision chain
//! and the newest values, and every object outside the edit's change set is unchanged.

use crate::common::*;
use crate::disk::*;
use crate::gen::*;
use crate::refpdf::{Obj, RefDoc};
use crate::runner::*;
use crate::simdisk::*;
use crate::simseam::ProcEnv;
use oxidize_pdf::geometry::Point;
use oxidize_pdf::parser::objects::PdfObject;
use oxidize_pdf::parser::PdfReader;
use oxidize_pdf::writer::{IncrementalFormFiller, IncrementalTextNoteEditor};
use serde::{Deserialize, Serialize};
use serde_json::Value;
use std::collections::BTreeMap;
use std::sync::Arc;

pub struct C17;

#[derive(Clone, Debug, Serialize, Deserialize, PartialEq)]
pub enum Edit {
    Fill { field: usize, value: String },
    FillMany(Vec<(usize, String)>),
    NoteAdd { page: u32, x: f64, y: f64, contents: String },
    NoteUpdate { nth: usize, x: f64, y: f64, contents: String },
    NoteRemove { nth: usize },
    /// PdfWriter::write_incremental_with_page_replacement: page 0 is replaced by a freshly authored
    /// page carrying `text` (the base travels through a real temp file as an inert input; the
    /// output goes through a shortening SimSink)
    PageReplace { text: String, short_writes: u64 },
}

#[derive(Clone, Debug, Serialize, Deserialize)]
pub struct Case {
    pub program: Program,
    pub cfg: WCfg,
    pub edits: Vec<Edit>,
    pub source: SourcePlan,
    pub preset: String,
    pub entropy_seed: u64,
    /// how the file the next edit starts from ends after `%%EOF` (all legal): variant = tail % 5
    /// (0 as written, 1 no end-of-line at all, 2 CR LF, 3 CR, 4 two extra LF); tail >= 5 applies it
    /// after every edit as well, not only to the base
    #[serde(default)]
    pub tail: u8,
}

/// Rewrite what follows the final `%%EOF` (nothing else moves, so every offset stays valid).
fn retail(buf: &mut Vec<u8>, tail: u8) {
    let v = tail % 5;
    if v == 0 || !buf.ends_with(b"%%EOF\n") && !buf.ends_with(b"%%EOF") && !buf.ends_with(b"%%EOF\r\n") {
        return;
    }
    while matches!(buf.last(), Some(b'\n') | Some(b'\r')) {
        buf.pop();
    }
    match v {
        1 => {}
        2 => buf.extend_from_slice(b"\r\n"),
        3 => buf.push(b'\r'),
        _ => buf.extend_from_slice(b"\n\n\n"),
    }
}

const VALUES: [&str; 14] = [
    "plain", "", "two words", "caf\u{e9}", "\u{fc}ber stra\u{df}e", "\u{65e5}\u{672c}\u{8a9e}", "emoji \u{1f600}", "line1\nline2", "cr\rlf\r\n", "(paren)", "back\\slash", "a)b(c", "\u{20ac}uro", "x\ty",
];

fn gen_value(r: &mut Rng) -> String {
    let mut s = VALUES[r.usize_below(VALUES.len())].to_string();
    if r.chance(1, 2) {
        s.push_str(&format!("-{}", r.below(100000))); // unique, so a read is attributable to one write
    }
    s
}

fn gen_case(cs: u64) -> Case {
    let mut r = Rng::new(cs);
    let mut program = gen_program(&mut r, &GenProgOpts { max_pages: 3, tricky_text: false, images: false, big_images: false, rich: false, tricky_names: false });
    // make sure there is something to edit: 2-4 text fields and 0-2 notes on the first page
    let insert_at = program.ops.iter().position(|o| matches!(o, DocOp::NewPage { .. })).map(|i| i + 1).unwrap_or(program.ops.len());
    let nf = 2 + r.usize_below(3);
    let mut extra = vec![];
    for i in 0..nf {
        extra.push(DocOp::Field { name: format!("fld{}", i), value: format!("init{}", i), kind: 0, x: 20.0 + 10.0 * i as f64, y: 30.0 + 25.0 * i as f64 });
    }
    for i in 0..r.usize_below(3) {
        extra.push(DocOp::Note { x: 10.0 + 15.0 * i as f64, y: 12.0, contents: format!("base note {}", i) });
    }
    for (k, op) in extra.into_iter().enumerate() {
        program.ops.insert(insert_at + k, op);
    }
    let cfgs = all_configs();
    let mut cfg = cfgs[r.usize_below(cfgs.len())].clone();
    if cfg.object_streams && !r.chance(1, 20) {
        cfg.object_streams = false;
    }
    let n = 1 + r.usize_below(6);
    let mut edits = vec![];
    for _ in 0..n {
        let e = match r.below(10) {
            0..=3 => Edit::Fill { field: r.usize_below(nf), value: gen_value(&mut r) },
            4 => Edit::FillMany((0..1 + r.usize_below(3)).map(|_| (r.usize_below(nf), gen_value(&mut r))).collect()),
            5..=6 => Edit::NoteAdd { page: 0, x: 5.0 + r.below(60) as f64, y: 5.0 + r.below(60) as f64, contents: { let v = gen_value(&mut r); if v.is_empty() { "n".into() } else { v } } },
            7..=8 => Edit::NoteUpdate { nth: r.usize_below(4), x: 5.0 + r.below(60) as f64, y: 5.0 + r.below(60) as f64, contents: { let v = gen_value(&mut r); if v.is_empty() { "u".into() } else { v } } },
            9 if r.chance(1, 2) => Edit::PageReplace { text: format!("replaced-{}", r.below(100000)), short_writes: if r.chance(1, 2) { r.next_u64() | 1 } else { 0 } },
            _ => Edit::NoteRemove { nth: r.usize_below(4) },
        };
        edits.push(e);
    }
    if cfg.object_streams {
        // such bases carry a million-entry xref stream (the writer numbers object streams from
        // 1,000,000); every edit re-parses it several times, so keep their histories short
        edits.truncate(2);
    }
    let source = if r.chance(1, 2) { gen_source_plan(&mut r, 1, 60, 4096) } else { SourcePlan::default() };
    let preset = r.pick(&["default", "tolerant", "strict"]).to_string();
    let entropy_seed = r.next_u64();
    let tail = if r.chance(1, 2) { 0 } else { r.below(10) as u8 };
    Case { program, cfg, edits, source, preset, entropy_seed, tail }
}

/// ISO 32000-1 §7.9.2.2 text-string decoding, independent of the library's.
pub fn decode_text_string(b: &[u8]) -> String {
    if b.len() >= 2 && b[0] == 0xFE && b[1] == 0xFF {
        let u: Vec<u16> = b[2..].chunks(2).map(|c| ((c[0] as u16) << 8) | *c.get(1).unwrap_or(&0) as u16).collect();
        return String::from_utf16_lossy(&u);
    }
    if b.len() >= 3 && b[0] == 0xEF && b[1] == 0xBB && b[2] == 0xBF {
        return String::from_utf8_lossy(&b[3..]).to_string(); // PDF 2.0
    }
    // PDFDocEncoding: Latin-1 except 0x18-0x1F and 0x80-0x9F, 0xA0, 0xAD
    const HI: [u32; 32] = [
        0x2022, 0x2020, 0x2021, 0x2026, 0x2014, 0x2013, 0x0192, 0x2044, 0x2039, 0x203A, 0x2212, 0x2030, 0x201E, 0x201C, 0x201D, 0x2018, 0x2019, 0x201A, 0x2122, 0xFB01, 0xFB02, 0x0141, 0x0152, 0x0160, 0x0178, 0x017D, 0x0131, 0x0142, 0x0153, 0x0161, 0x017E, 0xFFFD,
    ];
    const LO: [u32; 8] = [0x02D8, 0x02C7, 0x02C6, 0x02D9, 0x02DD, 0x02DB, 0x02DA, 0x02DC];
    b.iter()
        .map(|&c| match c {
            0x18..=0x1F => char::from_u32(LO[(c - 0x18) as usize]).unwrap(),
            0x80..=0x9F => char::from_u32(HI[(c - 0x80) as usize]).unwrap(),
            0xA0 => '\u{20AC}',
            c => c as char,
        })
        .collect()
}

fn same_obj(a_doc: &RefDoc, a: &Obj, b_doc: &RefDoc, b: &Obj) -> bool {
    match (a, b) {
        (Obj::Stream(da, sa, ea), Obj::Stream(db, sb, eb)) => da == db && a_doc.bytes[*sa..*ea] == b_doc.bytes[*sb..*eb],
        _ => a == b,
    }
}

struct NoteM {
    id: oxidize_pdf::writer::TextNoteId,
    page: u32,
    x: f64,
    y: f64,
    contents: String,
}

fn exec_inner(c: &Case, out: &mut Outcome) {
    let mut cur: Vec<u8> = Vec::new();
    match crate::c03::write_through(&c.program, &c.cfg, &None, &mut cur) {
        Ok(Ok(())) => {}
        _ => {
            out.bump("skipped.unbuildable_program", 1);
            return;
        }
    }
    retail(&mut cur, c.tail);
    out.bump(&format!("base_tail.{}", c.tail % 5), 1);
    // model
    let field_names: Vec<String> = c.program.ops.iter().filter_map(|o| if let DocOp::Field { name, kind: 0, .. } = o { Some(name.clone()) } else { None }).collect();
    let mut fields: BTreeMap<String, String> = c.program.ops.iter().filter_map(|o| if let DocOp::Field { name, value, kind: 0, .. } = o { Some((name.clone(), value.clone())) } else { None }).collect();
    let mut notes: Vec<NoteM> = match IncrementalTextNoteEditor::new(&cur).notes() {
        Ok(ns) => ns.into_iter().map(|n| NoteM { id: n.id, page: n.page_index, x: n.position.x, y: n.position.y, contents: n.contents }).collect(),
        Err(_) => vec![],
    };
    out.digest = fnv1a(serde_json::to_string(&c.edits).unwrap().as_bytes());
    out.digest = mix(out.digest, fnv1a(&cur));
    out.bump(&format!("cfg.{}", c.cfg.label()), 1);
    let mut applied = 0;
    let mut replaced_text: Option<String> = None;
    for (ei, e) in c.edits.iter().enumerate() {
        let prev = cur.clone();
        // ---- apply through the library
        let result: Result<Vec<u8>, String> = match e {
            Edit::Fill { field, value } => {
                let name = &field_names[*field % field_names.len()];
                IncrementalFormFiller::new(&prev).fill(name, value).map_err(|e| e.to_string()).map(|b| {
                    fields.insert(name.clone(), value.clone());
                    b
                })
            }
            Edit::FillMany(v) => {
                let pairs: Vec<(String, String)> = v.iter().map(|(f, val)| (field_names[*f % field_names.len()].clone(), val.clone())).collect();
                let refs: Vec<(&str, &str)> = pairs.iter().map(|(a, b)| (a.as_str(), b.as_str())).collect();
                IncrementalFormFiller::new(&prev).fill_many(&refs).map_err(|e| e.to_string()).map(|b| {
                    for (n, val) in &pairs {
                        fields.insert(n.clone(), val.clone()); // later duplicates win, as documented
                    }
                    b
                })
            }
            Edit::NoteAdd { page, x, y, contents } => {
                let m = oxidize_pdf::writer::TextNoteMutation::Add { page_index: *page, position: Point::new(*x, *y), contents: contents.clone() };
                IncrementalTextNoteEditor::new(&prev).apply(&[m]).map_err(|e| e.to_string()).map(|u| {
                    for n in &u.added_notes {
                        notes.push(NoteM { id: n.id, page: *page, x: *x, y: *y, contents: contents.clone() });
                    }
                    u.pdf_bytes
                })
            }
            Edit::NoteUpdate { nth, x, y, contents } => {
                if notes.is_empty() {
                    Err("no note to update".into())
                } else {
                    let k = nth % notes.len();
                    let m = oxidize_pdf::writer::TextNoteMutation::Update { id: notes[k].id, position: Point::new(*x, *y), contents: contents.clone() };
                    IncrementalTextNoteEditor::new(&prev).apply(&[m]).map_err(|e| e.to_string()).map(|u| {
                        notes[k].x = *x;
                        notes[k].y = *y;
                        notes[k].contents = contents.clone();
                        u.pdf_bytes
                    })
                }
            }
            Edit::PageReplace { text, short_writes } => {
                // the REAL pid (getpid() is simulated and equal in every worker): one directory per worker
                let real_pid = unsafe { libc::syscall(libc::SYS_getpid) };
                let dir = std::env::temp_dir().join(format!("simcheck-c17-{}", real_pid));
                let _ = std::fs::create_dir_all(&dir);
                let path = dir.join("base.pdf");
                let r = (|| -> Result<Vec<u8>, String> {
                    std::fs::write(&path, &prev).map_err(|e| e.to_string())?;
                    let mut doc = oxidize_pdf::Document::new();
                    let mut page = oxidize_pdf::Page::new(300.0, 300.0);
                    page.text().set_font(oxidize_pdf::text::Font::Helvetica, 12.0).at(20.0, 200.0).write(text).map_err(|e| e.to_string())?;
                    doc.add_page(page);
                    let mut plan = SinkPlan::default();
                    if *short_writes != 0 {
                        plan.short_seed = *short_writes;
                        plan.short_max_chunk = 97;
                    }
                    let (sink, image, _st) = SimSink::new(plan);
                    let mut w = oxidize_pdf::writer::PdfWriter::with_config(sink, oxidize_pdf::writer::WriterConfig::incremental());
                    w.write_incremental_with_page_replacement(&path, &mut doc).map_err(|e| e.to_string())?;
                    drop(w);
                    let b = image.lock().unwrap().clone();
                    Ok(b)
                })();
                let _ = std::fs::remove_file(&path);
                let _ = std::fs::remove_dir(&dir);
                r.map(|b| {
                    notes.retain(|n| n.page != 0); // the replaced page carries only what was authored
                    replaced_text = Some(text.clone());
                    b
                })
            }
            Edit::NoteRemove { nth } => {
                if notes.is_empty() {
                    Err("no note to remove".into())
                } else {
                    let k = nth % notes.len();
                    let m = oxidize_pdf::writer::TextNoteMutation::Remove { id: notes[k].id };
                    IncrementalTextNoteEditor::new(&prev).apply(&[m]).map_err(|e| e.to_string()).map(|u| {
                        notes.remove(k);
                        u.pdf_bytes
                    })
                }
            }
        };
        let new = match result {
            Ok(b) => b,
            Err(_) => {
                out.bump("edit_refused_by_api", 1);
                continue; // the API declined the edit: nothing was appended
            }
        };
        applied += 1;
        let kind = format!("{:?}", e);
        out.bump(&format!("edit.{}", kind.split(|ch: char| !ch.is_alphanumeric()).next().unwrap_or("?")), 1);
        let ctx = format!("edit #{} {:?} on config {}", ei, e, c.cfg.label());
        // (1) append-only
        if new.len() < prev.len() || new[..prev.len()] != prev[..] {
            let p = (0..prev.len().min(new.len())).find(|&i| prev[i] != new[i]).unwrap_or(prev.len().min(new.len()));
            out.violate("not-append-only", format!("{}: the output does not begin with the previous file's bytes (first difference at byte {} of {})", ctx, p, prev.len()));
            return;
        }
        if new.len() == prev.len() {
            out.violate("nothing-appended", format!("{}: the edit returned Ok but appended nothing", ctx));
            return;
        }
        // (3) independent reader: valid chain, newest values
        let pd = match RefDoc::open(&prev) {
            Ok(d) => d,
            Err(e) => {
                out.violate("harness-independent-reader-cannot-open-previous", e);
                return;
            }
        };
        let nd = match RefDoc::open(&new) {
            Ok(d) => d,
            Err(e) => {
                out.violate("independent-reader:chain-invalid", format!("{}: {}", ctx, e));
                return;
            }
        };
        if nd.sections.len() <= pd.sections.len() {
            out.violate("independent-reader:no-new-revision", format!("{}: {} cross-reference sections before, {} after", ctx, pd.sections.len(), nd.sections.len()));
            return;
        }
        for w in nd.sections.windows(2) {
            if w[0].offset <= w[1].offset {
                out.violate("independent-reader:prev-not-decreasing", format!("{}: section at {} has /Prev {}", ctx, w[0].offset, w[1].offset));
                return;
            }
            if w[0].size < w[1].size {
                out.violate("independent-reader:size-not-monotone", format!("{}: /Size {} in the newer section, {} in the older one", ctx, w[0].size, w[1].size));
                return;
            }
        }
        let issues = nd.validate();
        if let Some(first) = issues.first() {
            out.violate("independent-reader:structure", format!("{}: {} issue(s), first: {}", ctx, issues.len(), first));
            return;
        }
        // change set = objects defined by the newly appended section(s)
        let new_sections = nd.sections.len() - pd.sections.len();
        let mut changed: std::collections::BTreeSet<u32> = Default::default();
        for s in &nd.sections[..new_sections] {
            changed.extend(s.entries.keys().copied());
        }
        // (4) untouched objects unchanged
        for n in pd.xref.keys() {
            if changed.contains(n) {
                continue;
            }
            let (a, b) = (pd.object(*n), nd.object(*n));
            let same = match (&a, &b) {
                (Some(x), Some(y)) => same_obj(&pd, x, &nd, y),
                (None, None) => true,
                _ => false,
            };
            if !same {
                out.violate("untouched-object-changed", format!("{}: object {} is not in the appended section yet reads differently afterwards", ctx, n));
                return;
            }
        }
        out.bump("untouched_objects_compared", (pd.xref.len() - pd.xref.keys().filter(|n| changed.contains(n)).count()) as u64);
        // a replaced page shows the newly authored text, the page count is unchanged
        if let Edit::PageReplace { text, .. } = e {
            let (pp, np) = (pd.pages(), nd.pages());
            if pp.len() != np.len() {
                out.violate("page-replacement:page-count-changed", format!("{}: {} pages before, {} after", ctx, pp.len(), np.len()));
                return;
            }
            let hay = np.first().map(|p| String::from_utf8_lossy(&p.content).to_string()).unwrap_or_default();
            if !hay.contains(text.as_str()) {
                out.violate("page-replacement:new-content-not-visible", format!("{}: page 0 read back by the independent reader does not show {:?}", ctx, text));
                return;
            }
            out.bump("probe.page_replacement_checked", 1);
            // document-level entries of the catalog must survive a page replacement
            let old_root = pd.resolve(pd.trailer.get("Root").unwrap_or(&Obj::Null));
            let new_root = nd.resolve(nd.trailer.get("Root").unwrap_or(&Obj::Null));
            let lost: Vec<&str> = ["AcroForm", "Outlines", "Metadata", "Names"].into_iter().filter(|k| old_root.get(k).is_some() && new_root.get(k).is_none()).collect();
            if !lost.is_empty() {
                out.more.push((
                    Violation {
                        class: "page-replacement:catalog-entries-dropped".into(),
                        detail: format!("{}: the new catalog no longer has {:?}; earlier field values are unreachable", ctx, lost),
                    },
                    serde_json::to_value(c).unwrap(),
                ));
                if lost.contains(&"AcroForm") {
                    fields.clear(); // nothing left to show: keep checking the rest of the history
                }
            }
        }
        let _ = &replaced_text;
        // newest values through the independent reader
        let root = nd.resolve(nd.trailer.get("Root").unwrap_or(&Obj::Null));
        let af = nd.resolve(root.get("AcroForm").unwrap_or(&Obj::Null));
        let flds = nd.resolve(af.get("Fields").unwrap_or(&Obj::Null));
        let mut seen_fields: BTreeMap<String, String> = BTreeMap::new();
        if let Obj::Arr(a) = flds {
            for f in a {
                let fd = nd.resolve(&f);
                if let (Some(Obj::Str(t)), v) = (fd.get("T").map(|x| nd.resolve(x)), fd.get("V").map(|x| nd.resolve(x))) {
                    let val = match v {
                        Some(Obj::Str(b)) => decode_text_string(&b),
                        _ => String::new(),
                    };
                    seen_fields.insert(decode_text_string(&t), val);
                }
            }
        }
        for (name, want) in &fields {
            if seen_fields.get(name) != Some(want) {
                out.violate(
                    if want.is_ascii() { "independent-reader:field-value-not-latest" } else { "independent-reader:non-ascii-field-value-not-latest" },
                    format!("{}: field {:?} should read {:?}, the independent reader decodes /V as {:?}", ctx, name, want, seen_fields.get(name)),
                );
                return;
            }
        }
        // (2) the library itself, through the (possibly shortening) source
        let (src, stats) = SimSource::new(Arc::new(new.clone()), c.source.clone());
        let lib = (|| -> Result<(BTreeMap<String, String>, u32), String> {
            let mut rd = PdfReader::new_with_options(src, preset(&c.preset)).map_err(|e| format!("open: {}", e))?;
            let pages = rd.page_count().map_err(|e| format!("page_count: {}", e))?;
            let catalog = rd.catalog().map_err(|e| format!("catalog: {}", e))?.clone();
            let mut m = BTreeMap::new();
            let af = match catalog.get("AcroForm") {
                Some(o) => rd.resolve(o).map_err(|e| e.to_string())?.clone(),
                None => return Ok((m, pages)),
            };
            let fl = match af.as_dict().and_then(|d| d.get("Fields")) {
                Some(o) => rd.resolve(o).map_err(|e| e.to_string())?.clone(),
                None => return Ok((m, pages)),
            };
            if let Some(arr) = fl.as_array() {
                for k in 0..arr.len() {
                    let fd = rd.resolve(arr.get(k).unwrap()).map_err(|e| e.to_string())?.clone();
                    if let Some(d) = fd.as_dict() {
                        let t = match d.get("T") {
                            Some(PdfObject::String(s)) => s.to_text(),
                            _ => continue,
                        };
                        let v = match d.get("V") {
                            Some(PdfObject::String(s)) => s.to_text(),
                            _ => String::new(),
                        };
                        m.insert(t, v);
                    }
                }
            }
            Ok((m, pages))
        })();
        let st = stats.lock().unwrap().clone();
        bump_io(out, "src_", &st);
        out.log_digest = mix(out.log_digest, st.log);
        match lib {
            Err(e) => {
                out.violate("library:cannot-read-chain", format!("{} (preset {}): {}", ctx, c.preset, e));
                return;
            }
            Ok((m, _pages)) => {
                for (name, want) in &fields {
                    if m.get(name) != Some(want) {
                        out.violate(
                            if want.is_ascii() { "library:field-value-not-latest" } else { "library:non-ascii-field-value-not-latest" },
                            format!("{} (preset {}): field {:?} should read {:?}, the library reads {:?}", ctx, c.preset, name, want, m.get(name)),
                        );
                        return;
                    }
                }
            }
        }
        match IncrementalTextNoteEditor::new(&new).notes() {
            Err(e) => {
                out.violate("library:notes-unreadable", format!("{}: {}", ctx, e));
                return;
            }
            Ok(ns) => {
                let mut got: Vec<(u32, i64, i64, String)> = ns.iter().map(|n| (n.page_index, (n.position.x * 100.0).round() as i64, (n.position.y * 100.0).round() as i64, n.contents.clone())).collect();
                let mut want: Vec<(u32, i64, i64, String)> = notes.iter().map(|n| (n.page, (n.x * 100.0).round() as i64, (n.y * 100.0).round() as i64, n.contents.clone())).collect();
                got.sort();
                want.sort();
                if got != want {
                    out.violate("library:notes-not-latest", format!("{}: notes should be {:?}, the library reads {:?}", ctx, want, got));
                    return;
                }
            }
        }
        cur = new;
        if c.tail >= 5 {
            retail(&mut cur, c.tail);
        }
    }
    out.nontrivial = applied >= 1;
    out.bump("edits_applied", applied);
    out.bump("probe.history_of_3_or_more_edits", (applied >= 3) as u64);
}

impl Property for C17 {
    fn id(&self) -> &'static str {
        "C17"
    }
    fn engine(&self) -> Engine {
        Engine::Disk
    }
    fn cases(&self, tier: Tier) -> u64 {
        match tier {
            Tier::Quick => 2_500,
            Tier::Thorough => 40_000,
        }
    }
    fn gen(&self, cs: u64, _tier: Tier, _ctx: &ExecCtx) -> Value {
        serde_json::to_value(gen_case(cs)).unwrap()
    }
    fn exec(&self, case: &Value, ctx: &ExecCtx) -> Outcome {
        let c: Case = match serde_json::from_value(case.clone()) {
            Ok(c) => c,
            Err(e) => {
                let mut o = Outcome::default();
                o.violate("harness-bad-case", e.to_string());
                return o;
            }
        };
        let env = ProcEnv::fixed(c.entropy_seed);
        in_case_thread(ctx, &env, 120_000, move |out| exec_inner(&c, out))
    }
    fn shrink(&self, case: &Value) -> Vec<Value> {
        let c: Case = match serde_json::from_value(case.clone()) {
            Ok(c) => c,
            Err(_) => return vec![],
        };
        let mut v = vec![];
        let push = |n: Case, v: &mut Vec<Value>| v.push(serde_json::to_value(&n).unwrap());
        if !c.source.is_faultless() {
            let mut n = c.clone();
            n.source = SourcePlan::default();
            push(n, &mut v);
        }
        for i in (0..c.edits.len()).rev() {
            if c.edits.len() > 1 {
                let mut n = c.clone();
                n.edits.remove(i);
                push(n, &mut v);
            }
        }
        for (i, o) in c.program.ops.iter().enumerate() {
            if matches!(o, DocOp::NewPage { .. } | DocOp::Field { .. }) {
                continue;
            }
            let mut n = c.clone();
            n.program.ops.remove(i);
            push(n, &mut v);
        }
        v
    }
    fn sample(&self, case: &Value) -> Value {
        truncate_json(case, 120)
    }
    fn describe(&self) -> Describe {
        Describe {
            rule: "case = base document authored through the library (1-3 pages, 2-4 AcroForm text fields, 0-2 text notes) written under a table / xref-stream / object-stream configuration and ending after %%EOF in one of five legal ways (as written, no end-of-line, CR LF, CR, extra LFs; for some cases re-applied after every edit), then a history of 1-6 incremental edits drawn from IncrementalFormFiller::fill / fill_many (values over ASCII, Latin-1, BMP, astral, CR/LF, delimiters; unique suffixes) and IncrementalTextNoteEditor::apply(Add | Update | Remove), and PdfWriter::write_incremental_with_page_replacement (page 0 replaced by a freshly authored page). After EVERY applied edit: (1) the previous file is an exact byte prefix and something was appended; (2) the library, reading through a fault-free or short-reading source under one preset, shows every field's latest value (PdfString::to_text) and exactly the model's notes; (3) the independent reader walks startxref -> xref -> /Prev ... to the base, with /Prev strictly decreasing, /Size monotone and every section and object structurally valid, and decodes the same latest values; (4) every object outside the objects (re)defined by the appended section reads exactly as before. Reference model: {field -> value}, [note (page, position, contents)]. non-trivial = at least one edit applied; distinct = digest of (base bytes, edit list).".into(),
            assumptions: vec![
                "an edit the API refuses (Err) appends nothing and is skipped".into(),
                "PdfWriter::write_incremental_with_page_replacement is driven with the base in a real temp file (inert input, no seam) and the output through a shortening SimSink; _update and _overlay share its code path for numbering and xref emission but are not driven".into(),
                "text-string decoding follows ISO 32000-1 7.9.2.2 (UTF-16BE with BOM, else PDFDocEncoding; UTF-8 with BOM accepted)".into(),
            ],
            real_components: vec!["writer::{incremental_update, incremental_form_fill, incremental_text_notes}".into(), "writer::PdfWriter (base documents)".into(), "parser (chain reading, /Prev merge)".into()],
            stub_components: vec!["byte source: SimSource".into(), "entropy/clock/pid: libsim.so".into(), "second reader: refpdf (harness)".into()],
            fault_kinds: vec!["src short_read".into(), "history of appended revisions (1-6)".into()],
            level: "exploration",
            exhaustive_note: None,
        }
    }
}
