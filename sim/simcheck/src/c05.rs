//! C05 — encryption round-trips for every strength, configuration and password.
//! The unencrypted, fault-free write+read of a program is the reference view; the encrypted file
//! (owned entropy/clock/pid, fault-injecting sink and source) must give the same view after
//! unlocking with the user password and, separately, the owner password; any other password is
//! refused and nothing is readable while the document is locked.

use crate::common::*;
use crate::disk::*;
use crate::gen::*;
use crate::runner::*;
use crate::simdisk::*;
use crate::simseam::ProcEnv;
use crate::view::*;
use oxidize_pdf::encryption::Permissions;
use oxidize_pdf::parser::PdfReader;
use serde::{Deserialize, Serialize};
use serde_json::Value;
use std::io::Cursor;
use std::sync::Arc;

pub struct C05;

#[derive(Clone, Debug, Serialize, Deserialize)]
pub struct Case {
    pub program: Program,
    pub cfg: WCfg,
    pub enc: EncSpec,
    pub source: SourcePlan,
    pub entropy_seed: u64,
    pub entropy_mode: i32,
    pub preset: String,
}

fn gen_case(cs: u64) -> Case {
    let mut r = Rng::new(cs);
    let program = gen_program(&mut r, &GenProgOpts { max_pages: 2, tricky_text: true, images: true, big_images: false, rich: true, tricky_names: false });
    let cfgs = all_configs();
    let mut cfg = cfgs[r.usize_below(cfgs.len())].clone();
    if cfg.object_streams && !r.chance(1, 4) {
        cfg.object_streams = false;
    }
    let enc = gen_enc(&mut r);
    let source = if r.chance(1, 3) { gen_source_plan(&mut r, 1, 60, 4096) } else { SourcePlan::default() };
    Case {
        program,
        cfg,
        enc,
        source,
        entropy_seed: r.next_u64(),
        entropy_mode: match r.below(10) {
            0 => 1,
            1 => 2,
            _ => 0,
        },
        preset: r.pick(&["strict", "default", "tolerant"]).to_string(),
    }
}

fn open_view(bytes: Arc<Vec<u8>>, preset_name: &str, plan: &SourcePlan, password: Option<&str>, out: &mut Outcome) -> Result<DocView, String> {
    let (src, stats) = SimSource::new(bytes, plan.clone());
    let r = (|| {
        let mut rd = PdfReader::new_with_options(src, preset(preset_name)).map_err(|e| format!("open: {}", e))?;
        if let Some(pw) = password {
            if !rd.is_encrypted() {
                return Err("the written file is not recognised as encrypted".to_string());
            }
            match rd.unlock_with_password(pw) {
                Ok(true) => {}
                Ok(false) => return Err("correct password refused".to_string()),
                Err(e) => return Err(format!("unlock failed: {}", e)),
            }
        }
        library_view(rd)
    })();
    let st = stats.lock().unwrap().clone();
    bump_io(out, "src_", &st);
    out.log_digest = mix(out.log_digest, st.log);
    r
}

fn exec_inner(c: &Case, out: &mut Outcome) {
    // reference: unencrypted, classic, uncompressed, plain Vec / Cursor
    let mut plain: Vec<u8> = Vec::new();
    match crate::c03::write_through(&c.program, &WCfg::classic(false), &None, &mut plain) {
        Ok(Ok(())) => {}
        _ => {
            out.bump("skipped.unbuildable_program", 1);
            return;
        }
    }
    let reference = match PdfReader::new_with_options(Cursor::new(plain), preset("default")).map_err(|e| e.to_string()).and_then(library_view) {
        Ok(v) => v,
        Err(_) => {
            out.bump("skipped.reference_unreadable", 1);
            return;
        }
    };
    // encrypted, under the case's configuration
    let mut encd: Vec<u8> = Vec::new();
    match crate::c03::write_through(&c.program, &c.cfg, &Some(c.enc.clone()), &mut encd) {
        Ok(Ok(())) => {}
        Ok(Err(e)) => {
            out.violate("encrypted-write-failed", format!("config {} strength {}: write_document failed: {}", c.cfg.label(), c.enc.strength, e));
            return;
        }
        Err(_) => return,
    }
    if let Ok(path) = std::env::var("VERIF_DUMP") {
        let _ = std::fs::write(path, &encd);
    }
    out.nontrivial = true;
    out.digest = mix(reference.digest(), (c.enc.strength as u64) << 8 | c.cfg.label().len() as u64);
    out.bump(&format!("strength.{}", ["rc4-40", "rc4-128", "aes-128", "aes-256"][c.enc.strength as usize % 4]), 1);
    out.bump(&format!("cfg.{}", c.cfg.label()), 1);
    out.bump(&format!("fault.entropy_mode_{}", c.entropy_mode), 1);
    let enc = Arc::new(encd);
    let tag = format!("config {} {} user={:?} owner={:?}", c.cfg.label(), ["RC4-40", "RC4-128", "AES-128", "AES-256"][c.enc.strength as usize % 4], c.enc.user, c.enc.owner);

    // (a) locked: nothing may be readable; (b) wrong password refused
    {
        let (src, _st) = SimSource::new(enc.clone(), SourcePlan::default());
        match PdfReader::new_with_options(src, preset(&c.preset)) {
            Err(e) => {
                out.violate("encrypted-file-does-not-open", format!("{}: {}", tag, e));
                return;
            }
            Ok(mut rd) => {
                if !rd.is_encrypted() {
                    out.violate("not-recognised-as-encrypted", format!("{}: is_encrypted() is false on the written file — content would be returned as ciphertext", tag));
                    return;
                }
                let auto_unlocked = rd.is_unlocked();
                if auto_unlocked && !c.enc.user.is_empty() {
                    out.violate("unlocked-without-password", format!("{}: the reader reports the document unlocked although the user password is not empty", tag));
                    return;
                }
                if !auto_unlocked {
                    out.bump("probe.locked_state_checked", 1);
                    if let Ok(o) = rd.get_object(1, 0) {
                        out.violate("content-readable-while-locked", format!("{}: get_object(1,0) returned {} while the document is locked", tag, rendered(o)));
                        return;
                    }
                    // differs in its FIRST byte: revisions 2-4 only look at the first 32 bytes
                    let wrong = format!("#wrong#{}", c.enc.user);
                    if wrong != c.enc.owner && !c.enc.owner.starts_with("#wrong#") {
                        match rd.unlock_with_password(&wrong) {
                            Ok(true) => {
                                out.violate("wrong-password-accepted", format!("{}: password {:?} unlocked the document", tag, wrong));
                                return;
                            }
                            _ => out.bump("probe.wrong_password_refused", 1),
                        }
                    }
                }
            }
        }
    }
    // (c) user password, (d) owner password: same view as the unencrypted reference
    let mut pws = vec![("user", c.enc.user.clone())];
    if c.enc.owner != c.enc.user {
        pws.push(("owner", c.enc.owner.clone()));
    }
    for (who, pw) in pws {
        match open_view(enc.clone(), &c.preset, &c.source, Some(&pw), out) {
            Err(e) => {
                out.violate(&format!("{}-password:unreadable", who), format!("{} (preset {}): {}", tag, c.preset, e));
                return;
            }
            Ok(v) => {
                if let Some((what, detail)) = reference.diff(&v, ("unencrypted", "decrypted")) {
                    out.violate(&format!("{}-password:{}-differs", who, what), format!("{} (preset {}): {}", tag, c.preset, detail));
                    return;
                }
                out.bump(&format!("probe.{}_password_roundtrip", who), 1);
            }
        }
    }
    // (e) permissions survive
    {
        let (src, _st) = SimSource::new(enc.clone(), SourcePlan::default());
        if let Ok(mut rd) = PdfReader::new_with_options(src, preset(&c.preset)) {
            let _ = rd.unlock_with_password(&c.enc.user);
            if let Some(h) = rd.encryption_handler() {
                let got = h.permissions();
                let want = Permissions::from_bits(c.enc.perm_bits);
                let f = |p: &Permissions| (p.can_print(), p.can_modify_contents(), p.can_copy(), p.can_modify_annotations(), p.can_fill_forms(), p.can_access_for_accessibility(), p.can_assemble(), p.can_print_high_quality());
                if f(&got) != f(&want) {
                    out.violate("permissions-differ", format!("{}: permissions written {:?} (bits {:#x}) read back {:?} (bits {:#x})", tag, f(&want), c.enc.perm_bits, f(&got), got.bits()));
                }
            }
        }
    }
}

impl Property for C05 {
    fn id(&self) -> &'static str {
        "C05"
    }
    fn engine(&self) -> Engine {
        Engine::Disk
    }
    fn cases(&self, tier: Tier) -> u64 {
        match tier {
            Tier::Quick => 20_000,
            Tier::Thorough => 400_000,
        }
    }
    fn gen(&self, cs: u64, _tier: Tier, _ctx: &ExecCtx) -> Value {
        serde_json::to_value(gen_case(cs)).unwrap()
    }
    fn exec(&self, case: &Value, ctx: &ExecCtx) -> Outcome {
        let c: Case = match serde_json::from_value(case.clone()) {
            Ok(c) => c,
            Err(e) => {
                let mut o = Outcome::default();
                o.violate("harness-bad-case", e.to_string());
                return o;
            }
        };
        let mut env = ProcEnv::fixed(c.entropy_seed);
        env.entropy_mode = c.entropy_mode;
        env.clock_step_ns = 1_000_000; // IVs mix in the clock: let it move
        in_case_thread(ctx, &env, 120_000, move |out| exec_inner(&c, out))
    }
    fn shrink(&self, case: &Value) -> Vec<Value> {
        let c: Case = match serde_json::from_value(case.clone()) {
            Ok(c) => c,
            Err(_) => return vec![],
        };
        let mut v = vec![];
        let push = |n: Case, v: &mut Vec<Value>| v.push(serde_json::to_value(&n).unwrap());
        if !c.source.is_faultless() {
            let mut n = c.clone();
            n.source = SourcePlan::default();
            push(n, &mut v);
        }
        if c.entropy_mode != 0 {
            let mut n = c.clone();
            n.entropy_mode = 0;
            push(n, &mut v);
        }
        for p in shrink_program(&c.program) {
            let mut n = c.clone();
            n.program = p;
            push(n, &mut v);
        }
        for (u, o) in [("", ""), ("u", "o")] {
            if c.enc.user != u || c.enc.owner != o {
                let mut n = c.clone();
                n.enc.user = u.into();
                n.enc.owner = o.into();
                push(n, &mut v);
            }
        }
        v
    }
    fn sample(&self, case: &Value) -> Value {
        truncate_json(case, 120)
    }
    fn describe(&self) -> Describe {
        Describe {
            rule: "case = generated authoring program (text with delimiters and non-ASCII, images, annotations, form fields, outline, info strings) x strength (RC4-40, RC4-128, AES-128, AES-256) x user/owner passwords (empty, ASCII, non-ASCII, lengths around the 32- and 127-byte boundaries, with delimiters, equal or differing) x random permission bits x writer configuration (table / xref stream / object streams x compression x version) x entropy mode (seeded, all-zero, all-0xFF) with the clock advancing x source plan (fault-free | short reads) x reader preset. The view (page count, boxes, rotation, decoded content bytes, extracted text, images, annotation contents, info strings, field values, outline titles) of the unencrypted fault-free write+read is the reference; the encrypted file must be recognised as encrypted, expose nothing while locked, refuse a wrong password, and give the identical view after unlocking with the user password and, separately, the owner password; permission flags must read back as written. non-trivial = program that serialised encrypted; distinct = digest of (reference view, strength, configuration).".into(),
            assumptions: vec![
                "the reference is the library's own reading of the unencrypted document, so the check demands no more than the library delivers without encryption".into(),
                "'ciphertext silently returned' is detected as a view that differs from the reference (unique plaintext cannot equal ciphertext) or as is_encrypted() being false".into(),
            ],
            real_components: vec!["document::encryption, encryption::{standard_security, object_encryption, aes, rc4}".into(), "writer (init_encryption, per-object encryption, trailer / xref stream)".into(), "parser::{reader unlock/decrypt, encryption_handler}".into()],
            stub_components: vec!["OS entropy (salts, file key, file id, IV material), clock and pid: libsim.so".into(), "byte source: SimSource".into()],
            fault_kinds: vec!["entropy: seeded / all-zero / all-0xFF".into(), "clock advancing".into(), "src short_read".into()],
            level: "exploration",
            exhaustive_note: None,
        }
    }
}
