//! The harness's own synthetic PDF writer: multi-revision files whose ground truth is known by
//! construction (never read back through the code under test). Used by C04 (revision histories),
//! C19 (single-revision files to damage) and C01 (seed corpus).

use crate::common::*;
use serde::{Deserialize, Serialize};
use std::collections::BTreeMap;
use std::io::Write;

#[derive(Clone, Copy, Debug, Serialize, Deserialize, PartialEq, Eq)]
pub enum Kind {
    Dict,
    Int,
    Array,
    Stream,
    Catalog,
    Pages,
    Page,
}

#[derive(Clone, Debug, Serialize, Deserialize, PartialEq)]
pub enum ObjOp {
    /// (re)define object `num` generation `gen` with unique value `v`
    Define { num: u32, gen: u16, v: i64, kind: Kind, in_objstm: bool },
    /// free object `num` (its next generation is gen+1)
    Free { num: u32 },
}

#[derive(Clone, Debug, Serialize, Deserialize, PartialEq)]
pub struct Revision {
    pub ops: Vec<ObjOp>,
    pub xref_stream: bool,
    pub objstm_flate: bool,
}

#[derive(Clone, Debug, Serialize, Deserialize, PartialEq)]
pub struct SynthSpec {
    pub revisions: Vec<Revision>,
    /// bytes of `%` comment lines written after every plain object (pushes files across the
    /// readers' 8 KiB buffer and 64 KiB scan-chunk boundaries)
    #[serde(default)]
    pub pad: usize,
    /// object renumbering: object n is written as perm[n-1] (empty = identity); lets the catalog
    /// live at an arbitrary number and position
    #[serde(default)]
    pub perm: Vec<u32>,
    /// (logical object number, boundary, delta): pad so that this plain object's `N G obj` header
    /// starts `delta` bytes before the given offset boundary (a reader's buffer / scan-chunk edge)
    #[serde(default)]
    pub straddle: Option<(u32, usize, usize)>,
    /// white-space bytes between `/First` and the first compressed object, so that the offsets in
    /// an object stream's header start above zero (legal; most writers start at 0)
    #[serde(default)]
    pub objstm_gap: usize,
}

impl SynthSpec {
    pub fn m(&self, n: u32) -> u32 {
        if n >= 1 && (n as usize) <= self.perm.len() {
            self.perm[n as usize - 1]
        } else {
            n
        }
    }
}

#[derive(Clone, Debug, PartialEq)]
pub struct ObjState {
    pub gen: u16,
    /// None = free
    pub val: Option<(i64, Kind)>,
    pub in_objstm: bool,
    /// revision that last touched it
    pub rev: usize,
}

pub type Model = BTreeMap<u32, ObjState>;

#[derive(Clone, Debug, Default)]
pub struct RevLayout {
    /// byte offset where this revision's cross-reference section starts
    pub xref_pos: usize,
    /// end of the file after this revision (exclusive)
    pub end: usize,
    pub startxref_kw: usize,
    pub is_stream: bool,
}

pub struct Built {
    pub bytes: Vec<u8>,
    /// model after each revision
    pub models: Vec<Model>,
    pub layouts: Vec<RevLayout>,
    /// container objects (object streams, xref streams): number -> revision
    pub containers: BTreeMap<u32, usize>,
}

pub fn body(spec: &SynthSpec, num: u32, v: i64, kind: Kind) -> Vec<u8> {
    let (pages, page) = (spec.m(2), spec.m(3));
    match kind {
        Kind::Dict => format!("<< /V {} /S (text-{}) /N {} >>", v, v, num).into_bytes(),
        Kind::Int => format!("{}", v).into_bytes(),
        Kind::Array => format!("[{} /N{} (x{})]", v, num, v).into_bytes(),
        Kind::Stream => {
            let data = format!("data-{}", v);
            format!("<< /V {} /Length {} >>\nstream\n{}\nendstream", v, data.len(), data).into_bytes()
        }
        Kind::Catalog => format!("<< /Type /Catalog /Pages {} 0 R /V {} >>", pages, v).into_bytes(),
        Kind::Pages => format!("<< /Type /Pages /Kids [{} 0 R] /Count 1 /V {} >>", page, v).into_bytes(),
        Kind::Page => format!("<< /Type /Page /Parent {} 0 R /MediaBox [0 0 612 792] /V {} >>", pages, v).into_bytes(),
    }
}

fn deflate(data: &[u8]) -> Vec<u8> {
    let mut e = flate2::write::ZlibEncoder::new(Vec::new(), flate2::Compression::default());
    e.write_all(data).unwrap();
    e.finish().unwrap()
}

#[derive(Clone, Copy, Debug)]
enum Entry {
    Free { next: u32, gen: u16 },
    InUse { off: usize, gen: u16 },
    Compressed { stm: u32, idx: u32 },
}

pub fn build(spec: &SynthSpec) -> Built {
    let mut out: Vec<u8> = Vec::new();
    out.extend_from_slice(b"%PDF-1.5\n%\xE2\xE3\xCF\xD3\n");
    let mut model: Model = BTreeMap::new();
    let mut models = vec![];
    let mut layouts = vec![];
    let mut containers = BTreeMap::new();
    // highest object number ever used
    let mut max_num: u32 = 0;
    for rev in &spec.revisions {
        for op in &rev.ops {
            if let ObjOp::Define { num, .. } | ObjOp::Free { num } = op {
                max_num = max_num.max(spec.m(*num));
            }
        }
    }
    // container numbers are allocated above every spec'd number so they never collide
    let mut next_num = max_num + 1;
    let mut prev_xref: Option<usize> = None;
    for (ri, rev) in spec.revisions.iter().enumerate() {
        let mut entries: BTreeMap<u32, Entry> = BTreeMap::new();
        let mut packed: Vec<(u32, Vec<u8>)> = vec![];
        let mut freed_any = false;
        for op in &rev.ops {
            match op {
                ObjOp::Define { num, gen, v, kind, in_objstm } => {
                    let num = &spec.m(*num);
                    let in_stm = *in_objstm && rev.xref_stream && *gen == 0 && *kind != Kind::Stream;
                    if in_stm {
                        packed.retain(|(n, _)| n != num);
                        packed.push((*num, body(spec, *num, *v, *kind)));
                        entries.remove(num);
                    } else {
                        packed.retain(|(n, _)| n != num);
                        if let Some((sn, boundary, delta)) = spec.straddle {
                            if spec.m(sn) == *num && boundary > delta && out.len() + 2 <= boundary - delta {
                                let target = boundary - delta;
                                while out.len() < target {
                                    let n = (target - out.len()).min(99);
                                    if n == 1 {
                                        out.push(b'\n');
                                    } else {
                                        out.push(b'%');
                                        out.extend(std::iter::repeat(b's').take(n - 2));
                                        out.push(b'\n');
                                    }
                                }
                            }
                        }
                        let off = out.len();
                        out.extend_from_slice(format!("{} {} obj\n", num, gen).as_bytes());
                        out.extend_from_slice(&body(spec, *num, *v, *kind));
                        out.extend_from_slice(b"\nendobj\n");
                        let mut left = spec.pad;
                        while left > 0 {
                            let n = left.min(97);
                            out.push(b'%');
                            out.extend(std::iter::repeat(b'p').take(n));
                            out.push(b'\n');
                            left -= n;
                        }
                        entries.insert(*num, Entry::InUse { off, gen: *gen });
                    }
                    model.insert(*num, ObjState { gen: *gen, val: Some((*v, *kind)), in_objstm: in_stm, rev: ri });
                }
                ObjOp::Free { num } => {
                    let num = &spec.m(*num);
                    packed.retain(|(n, _)| n != num);
                    let g = model.get(num).map(|s| s.gen).unwrap_or(0);
                    let ng = if g == u16::MAX { g } else { g + 1 };
                    model.insert(*num, ObjState { gen: ng, val: None, in_objstm: false, rev: ri });
                    entries.remove(num);
                    freed_any = true;
                }
            }
        }
        if !packed.is_empty() {
            let stm_num = next_num;
            next_num += 1;
            containers.insert(stm_num, ri);
            let mut head = String::new();
            let mut bodies: Vec<u8> = vec![b'\n'; spec.objstm_gap];
            for (n, b) in &packed {
                head.push_str(&format!("{} {} ", n, bodies.len()));
                bodies.extend_from_slice(b);
                bodies.push(b'\n');
            }
            let first = head.len();
            let mut data = head.into_bytes();
            data.extend_from_slice(&bodies);
            let (payload, filter) = if rev.objstm_flate { (deflate(&data), " /Filter /FlateDecode") } else { (data, "") };
            let off = out.len();
            out.extend_from_slice(
                format!("{} 0 obj\n<< /Type /ObjStm /N {} /First {}{} /Length {} >>\nstream\n", stm_num, packed.len(), first, filter, payload.len())
                    .as_bytes(),
            );
            out.extend_from_slice(&payload);
            out.extend_from_slice(b"\nendstream\nendobj\n");
            entries.insert(stm_num, Entry::InUse { off, gen: 0 });
            for (i, (n, _)) in packed.iter().enumerate() {
                entries.insert(*n, Entry::Compressed { stm: stm_num, idx: i as u32 });
            }
        }
        // free list: rewrite object 0 and every currently free object whenever the list changed
        if freed_any || ri == 0 {
            let free_nums: Vec<u32> = model.iter().filter(|(_, s)| s.val.is_none()).map(|(n, _)| *n).collect();
            let mut chain = vec![0u32];
            chain.extend(free_nums.iter().copied());
            for (i, n) in chain.iter().enumerate() {
                let next = if i + 1 < chain.len() { chain[i + 1] } else { 0 };
                let gen = if *n == 0 { 65535 } else { model[n].gen };
                entries.insert(*n, Entry::Free { next, gen });
            }
        }
        let xref_pos = out.len();
        let mut size = next_num;
        if rev.xref_stream {
            let x_num = next_num;
            next_num += 1;
            size = next_num;
            containers.insert(x_num, ri);
            entries.insert(x_num, Entry::InUse { off: xref_pos, gen: 0 });
            let mut index = String::new();
            let mut data: Vec<u8> = vec![];
            let nums: Vec<u32> = entries.keys().copied().collect();
            let mut i = 0;
            while i < nums.len() {
                let mut j = i;
                while j + 1 < nums.len() && nums[j + 1] == nums[j] + 1 {
                    j += 1;
                }
                index.push_str(&format!("{} {} ", nums[i], j - i + 1));
                for n in &nums[i..=j] {
                    let (t, a, b): (u8, u32, u16) = match entries[n] {
                        Entry::Free { next, gen } => (0, next, gen),
                        Entry::InUse { off, gen } => (1, off as u32, gen),
                        Entry::Compressed { stm, idx } => (2, stm, idx as u16),
                    };
                    data.push(t);
                    data.extend_from_slice(&a.to_be_bytes());
                    data.extend_from_slice(&b.to_be_bytes());
                }
                i = j + 1;
            }
            let (payload, filter) = if rev.objstm_flate { (deflate(&data), " /Filter /FlateDecode") } else { (data, "") };
            let prev = prev_xref.map(|p| format!(" /Prev {}", p)).unwrap_or_default();
            out.extend_from_slice(
                format!(
                    "{} 0 obj\n<< /Type /XRef /Size {} /W [1 4 2] /Index [{}] /Root {} 0 R{}{} /Length {} >>\nstream\n",
                    x_num, size, index.trim_end(), spec.m(1), prev, filter, payload.len()
                )
                .as_bytes(),
            );
            out.extend_from_slice(&payload);
            out.extend_from_slice(b"\nendstream\nendobj\n");
        } else {
            out.extend_from_slice(b"xref\n");
            let nums: Vec<u32> = entries.keys().copied().collect();
            let mut i = 0;
            while i < nums.len() {
                let mut j = i;
                while j + 1 < nums.len() && nums[j + 1] == nums[j] + 1 {
                    j += 1;
                }
                out.extend_from_slice(format!("{} {}\n", nums[i], j - i + 1).as_bytes());
                for n in &nums[i..=j] {
                    match entries[n] {
                        Entry::Free { next, gen } => out.extend_from_slice(format!("{:010} {:05} f \n", next, gen).as_bytes()),
                        Entry::InUse { off, gen } => out.extend_from_slice(format!("{:010} {:05} n \n", off, gen).as_bytes()),
                        Entry::Compressed { .. } => unreachable!("compressed entries need an xref stream"),
                    }
                }
                i = j + 1;
            }
            let prev = prev_xref.map(|p| format!(" /Prev {}", p)).unwrap_or_default();
            out.extend_from_slice(format!("trailer\n<< /Size {} /Root {} 0 R{} >>\n", size, spec.m(1), prev).as_bytes());
        }
        let startxref_kw = out.len();
        out.extend_from_slice(format!("startxref\n{}\n%%EOF\n", xref_pos).as_bytes());
        prev_xref = Some(xref_pos);
        models.push(model.clone());
        layouts.push(RevLayout { xref_pos, end: out.len(), startxref_kw, is_stream: rev.xref_stream });
    }
    Built { bytes: out, models, layouts, containers }
}

/// Options steering generation.
pub struct GenOpts {
    pub max_updates: usize,
    pub allow_objstm: bool,
    pub allow_xref_stream: bool,
    pub allow_free: bool,
}

/// Seeded history generator: base of 4–12 objects, then 0..max_updates revisions of
/// redefine / free / re-add, each with a unique value.
pub fn gen_spec(r: &mut Rng, o: &GenOpts) -> SynthSpec {
    let mut next_v: i64 = 1000 + r.below(9000) as i64;
    let mut fresh = |r: &mut Rng| {
        next_v += 1 + r.below(7) as i64;
        next_v
    };
    let n_values = 1 + r.usize_below(9);
    let base_stream = o.allow_xref_stream && r.chance(1, 2);
    let mut ops = vec![];
    let mut live: BTreeMap<u32, (u16, Kind)> = BTreeMap::new();
    let mut freed: BTreeMap<u32, u16> = BTreeMap::new();
    for (num, kind) in [(1u32, Kind::Catalog), (2, Kind::Pages), (3, Kind::Page)] {
        let in_objstm = base_stream && o.allow_objstm && r.chance(1, 4);
        ops.push(ObjOp::Define { num, gen: 0, v: fresh(r), kind, in_objstm });
        live.insert(num, (0, kind));
    }
    for i in 0..n_values {
        let num = 4 + i as u32;
        let kind = *r.pick(&[Kind::Dict, Kind::Dict, Kind::Int, Kind::Array, Kind::Stream]);
        let in_objstm = base_stream && o.allow_objstm && kind != Kind::Stream && r.chance(1, 2);
        ops.push(ObjOp::Define { num, gen: 0, v: fresh(r), kind, in_objstm });
        live.insert(num, (0, kind));
    }
    let mut revisions = vec![Revision { ops, xref_stream: base_stream, objstm_flate: r.chance(1, 2) }];
    let k = if o.max_updates == 0 { 0 } else { r.usize_below(o.max_updates + 1) };
    for _ in 0..k {
        let xs = o.allow_xref_stream && r.chance(1, 2);
        let mut ops = vec![];
        let n_ops = 1 + r.usize_below(4);
        let mut touched = std::collections::BTreeSet::new();
        for _ in 0..n_ops {
            let c = r.below(100);
            if c < 20 && o.allow_free {
                // free a live value object
                let cands: Vec<u32> = live.keys().copied().filter(|n| *n >= 4 && !touched.contains(n)).collect();
                if let Some(&num) = cands.get(r.usize_below(cands.len().max(1))) {
                    let (g, _) = live.remove(&num).unwrap();
                    freed.insert(num, g.saturating_add(1));
                    touched.insert(num);
                    ops.push(ObjOp::Free { num });
                    continue;
                }
            }
            if c < 35 && !freed.is_empty() {
                // re-add a freed object with its next generation
                let cands: Vec<u32> = freed.keys().copied().filter(|n| !touched.contains(n)).collect();
                if let Some(&num) = cands.get(r.usize_below(cands.len().max(1))) {
                    let g = freed.remove(&num).unwrap();
                    let kind = *r.pick(&[Kind::Dict, Kind::Int, Kind::Array]);
                    live.insert(num, (g, kind));
                    touched.insert(num);
                    ops.push(ObjOp::Define { num, gen: g, v: fresh(r), kind, in_objstm: false });
                    continue;
                }
            }
            // redefine a live object (possibly moving it into / out of an object stream)
            let cands: Vec<u32> = live.keys().copied().filter(|n| !touched.contains(n)).collect();
            if cands.is_empty() {
                continue;
            }
            let num = cands[r.usize_below(cands.len())];
            let (g, old_kind) = live[&num];
            let kind = if num <= 3 { old_kind } else { *r.pick(&[Kind::Dict, Kind::Dict, Kind::Int, Kind::Array, Kind::Stream]) };
            let in_objstm = xs && o.allow_objstm && g == 0 && kind != Kind::Stream && r.chance(1, 2);
            live.insert(num, (g, kind));
            touched.insert(num);
            ops.push(ObjOp::Define { num, gen: g, v: fresh(r), kind, in_objstm });
        }
        if ops.is_empty() {
            continue;
        }
        revisions.push(Revision { ops, xref_stream: xs, objstm_flate: r.chance(1, 2) });
    }
    let perm: Vec<u32> = if r.chance(1, 3) {
        let n = 3 + n_values;
        let mut p: Vec<u32> = (1..=n as u32).collect();
        for i in (1..n).rev() {
            p.swap(i, r.usize_below(i + 1));
        }
        // also shuffle the order in which the base objects appear in the file
        let base = &mut revisions[0].ops;
        for i in (1..base.len()).rev() {
            base.swap(i, r.usize_below(i + 1));
        }
        p
    } else {
        vec![]
    };
    let pad = match r.below(12) {
        0 => 900 + r.usize_below(2000),
        1 => 7000 + r.usize_below(9000),
        _ => 0,
    };
    let straddle = if r.chance(1, 6) {
        let boundary = *r.pick(&[8192usize, 8192, 16384, 65536, 65536, 131072]);
        Some((1 + r.below(3 + n_values as u64) as u32, boundary, r.usize_below(9)))
    } else {
        None
    };
    let objstm_gap = if r.chance(1, 3) { 1 + r.usize_below(7) } else { 0 };
    SynthSpec { revisions, pad, perm, straddle, objstm_gap }
}
