//! refpdf — an independent structural PDF reader/validator written for this harness. It shares no
//! code with the library under test: own tokenizer (strict ISO 32000-1 §7.2–7.3 grammar), own
//! cross-reference walk (tables, streams, /Prev chains), own object-stream unpacking; `flate2`
//! for inflate. Used as the "independent checker" of C03 and the second reader of C02/C17/C05.

use std::collections::{BTreeMap, BTreeSet};
use std::io::Read;

#[derive(Clone, Debug, PartialEq)]
pub enum Obj {
    Null,
    Bool(bool),
    Int(i64),
    Real(f64),
    Str(Vec<u8>),
    Name(String),
    Arr(Vec<Obj>),
    Dict(Vec<(String, Obj)>),
    Ref(u32, u16),
    /// dictionary + byte range of the raw stream data in the file
    Stream(Vec<(String, Obj)>, usize, usize),
}

impl Obj {
    pub fn get(&self, key: &str) -> Option<&Obj> {
        match self {
            Obj::Dict(d) | Obj::Stream(d, _, _) => d.iter().find(|(k, _)| k == key).map(|(_, v)| v),
            _ => None,
        }
    }
    pub fn as_int(&self) -> Option<i64> {
        match self {
            Obj::Int(i) => Some(*i),
            _ => None,
        }
    }
    pub fn as_num(&self) -> Option<f64> {
        match self {
            Obj::Int(i) => Some(*i as f64),
            Obj::Real(r) => Some(*r),
            _ => None,
        }
    }
    pub fn as_name(&self) -> Option<&str> {
        match self {
            Obj::Name(n) => Some(n),
            _ => None,
        }
    }
    pub fn as_arr(&self) -> Option<&Vec<Obj>> {
        match self {
            Obj::Arr(a) => Some(a),
            _ => None,
        }
    }
    pub fn is_dictish(&self) -> bool {
        matches!(self, Obj::Dict(_) | Obj::Stream(..))
    }
}

fn is_ws(b: u8) -> bool {
    matches!(b, 0 | 9 | 10 | 12 | 13 | 32)
}
fn is_delim(b: u8) -> bool {
    matches!(b, b'(' | b')' | b'<' | b'>' | b'[' | b']' | b'{' | b'}' | b'/' | b'%')
}
fn is_regular(b: u8) -> bool {
    !is_ws(b) && !is_delim(b)
}

pub struct P<'a> {
    pub b: &'a [u8],
    pub i: usize,
}

pub type PResult<T> = Result<T, String>;

impl<'a> P<'a> {
    pub fn new(b: &'a [u8], i: usize) -> Self {
        P { b, i }
    }
    fn err<T>(&self, m: &str) -> PResult<T> {
        let s = self.i.saturating_sub(20);
        let e = (self.i + 20).min(self.b.len());
        Err(format!("{} at byte {} (…{}…)", m, self.i, String::from_utf8_lossy(&self.b[s..e]).replace('\n', "\\n").replace('\r', "\\r")))
    }
    pub fn skip_ws(&mut self) {
        loop {
            while self.i < self.b.len() && is_ws(self.b[self.i]) {
                self.i += 1;
            }
            if self.i < self.b.len() && self.b[self.i] == b'%' {
                while self.i < self.b.len() && self.b[self.i] != b'\n' && self.b[self.i] != b'\r' {
                    self.i += 1;
                }
            } else {
                break;
            }
        }
    }
    fn peek(&self) -> Option<u8> {
        self.b.get(self.i).copied()
    }
    pub fn keyword(&mut self, kw: &[u8]) -> bool {
        if self.b.len() >= self.i + kw.len() && &self.b[self.i..self.i + kw.len()] == kw {
            let after = self.b.get(self.i + kw.len()).copied();
            if after.map(|c| !is_regular(c)).unwrap_or(true) {
                self.i += kw.len();
                return true;
            }
        }
        false
    }
    fn regular_run(&mut self) -> &'a [u8] {
        let s = self.i;
        while self.i < self.b.len() && is_regular(self.b[self.i]) {
            self.i += 1;
        }
        &self.b[s..self.i]
    }
    fn number(&mut self) -> PResult<Obj> {
        let s = self.i;
        let t = self.regular_run();
        if t.is_empty() {
            return self.err("expected a number");
        }
        let txt = std::str::from_utf8(t).map_err(|_| format!("non-ASCII number token at byte {}", s))?;
        let body = txt.strip_prefix(['+', '-']).unwrap_or(txt);
        if body.is_empty() || !body.bytes().all(|c| c.is_ascii_digit() || c == b'.') || body.bytes().filter(|c| *c == b'.').count() > 1 || body == "." {
            self.i = s;
            return self.err(&format!("malformed number token {:?}", txt));
        }
        if body.contains('.') {
            txt.parse::<f64>().map(Obj::Real).map_err(|_| format!("malformed real {:?} at byte {}", txt, s))
        } else {
            match txt.parse::<i64>() {
                Ok(i) => Ok(Obj::Int(i)),
                Err(_) => txt.parse::<f64>().map(Obj::Real).map_err(|_| format!("malformed integer {:?} at byte {}", txt, s)),
            }
        }
    }
    fn name(&mut self) -> PResult<Obj> {
        self.i += 1; // '/'
        let raw = self.regular_run();
        let mut out = Vec::new();
        let mut k = 0;
        while k < raw.len() {
            if raw[k] == b'#' {
                if k + 2 >= raw.len() {
                    return self.err("truncated #xx escape in name");
                }
                let h = std::str::from_utf8(&raw[k + 1..k + 3]).ok().and_then(|s| u8::from_str_radix(s, 16).ok());
                match h {
                    Some(0) | None => return self.err("invalid #xx escape in name"),
                    Some(v) => out.push(v),
                }
                k += 3;
            } else {
                if raw[k] < 0x21 || raw[k] > 0x7e {
                    // bytes outside '!'..'~' should be written as #xx (§7.3.5); accept but note
                }
                out.push(raw[k]);
                k += 1;
            }
        }
        Ok(Obj::Name(String::from_utf8_lossy(&out).to_string()))
    }
    fn literal_string(&mut self) -> PResult<Obj> {
        self.i += 1; // '('
        let mut depth = 1;
        let mut out = Vec::new();
        while self.i < self.b.len() {
            let c = self.b[self.i];
            self.i += 1;
            match c {
                b'\\' => {
                    let e = match self.peek() {
                        Some(e) => e,
                        None => return self.err("string ends inside an escape"),
                    };
                    self.i += 1;
                    match e {
                        b'n' => out.push(b'\n'),
                        b'r' => out.push(b'\r'),
                        b't' => out.push(b'\t'),
                        b'b' => out.push(8),
                        b'f' => out.push(12),
                        b'(' | b')' | b'\\' => out.push(e),
                        b'\r' => {
                            if self.peek() == Some(b'\n') {
                                self.i += 1;
                            }
                        }
                        b'\n' => {}
                        b'0'..=b'7' => {
                            let mut v = (e - b'0') as u32;
                            for _ in 0..2 {
                                match self.peek() {
                                    Some(d @ b'0'..=b'7') => {
                                        v = v * 8 + (d - b'0') as u32;
                                        self.i += 1;
                                    }
                                    _ => break,
                                }
                            }
                            out.push((v & 0xFF) as u8);
                        }
                        other => out.push(other), // "\x" => x (§7.3.4.2: the backslash is ignored)
                    }
                }
                b'(' => {
                    depth += 1;
                    out.push(c);
                }
                b')' => {
                    depth -= 1;
                    if depth == 0 {
                        return Ok(Obj::Str(out));
                    }
                    out.push(c);
                }
                _ => out.push(c),
            }
        }
        self.err("unbalanced literal string")
    }
    fn hex_string(&mut self) -> PResult<Obj> {
        self.i += 1; // '<'
        let mut digits = Vec::new();
        loop {
            match self.peek() {
                None => return self.err("unterminated hex string"),
                Some(b'>') => {
                    self.i += 1;
                    break;
                }
                Some(c) if is_ws(c) => self.i += 1,
                Some(c) if c.is_ascii_hexdigit() => {
                    digits.push(c);
                    self.i += 1;
                }
                Some(_) => return self.err("non-hex character in hex string"),
            }
        }
        if digits.len() % 2 == 1 {
            digits.push(b'0');
        }
        let out = digits.chunks(2).map(|p| u8::from_str_radix(std::str::from_utf8(p).unwrap(), 16).unwrap()).collect();
        Ok(Obj::Str(out))
    }
    pub fn object(&mut self, depth: u32) -> PResult<Obj> {
        if depth > 200 {
            return self.err("nesting deeper than 200");
        }
        self.skip_ws();
        let c = match self.peek() {
            Some(c) => c,
            None => return self.err("unexpected end of data"),
        };
        match c {
            b'/' => self.name(),
            b'(' => self.literal_string(),
            b'<' => {
                if self.b.get(self.i + 1) == Some(&b'<') {
                    self.i += 2;
                    let mut d: Vec<(String, Obj)> = vec![];
                    loop {
                        self.skip_ws();
                        if self.b.len() >= self.i + 2 && &self.b[self.i..self.i + 2] == b">>" {
                            self.i += 2;
                            break;
                        }
                        if self.peek() != Some(b'/') {
                            return self.err("dictionary key is not a name");
                        }
                        let k = match self.name()? {
                            Obj::Name(n) => n,
                            _ => unreachable!(),
                        };
                        let v = self.object(depth + 1)?;
                        if d.iter().any(|(kk, _)| *kk == k) {
                            return self.err(&format!("duplicate dictionary key /{}", k));
                        }
                        d.push((k, v));
                    }
                    Ok(Obj::Dict(d))
                } else {
                    self.hex_string()
                }
            }
            b'[' => {
                self.i += 1;
                let mut a = vec![];
                loop {
                    self.skip_ws();
                    if self.peek() == Some(b']') {
                        self.i += 1;
                        break;
                    }
                    a.push(self.object(depth + 1)?);
                }
                Ok(Obj::Arr(a))
            }
            b'+' | b'-' | b'.' | b'0'..=b'9' => {
                let save = self.i;
                let n = self.number()?;
                // maybe "N G R"
                if let Obj::Int(num) = n {
                    if num >= 0 && !self.b[save..self.i].starts_with(b"+") {
                        let after_first = self.i;
                        self.skip_ws();
                        if matches!(self.peek(), Some(b'0'..=b'9')) {
                            if let Ok(Obj::Int(g)) = self.number() {
                                self.skip_ws();
                                if self.keyword(b"R") {
                                    return Ok(Obj::Ref(num as u32, g as u16));
                                }
                            }
                        }
                        self.i = after_first;
                    }
                }
                Ok(n)
            }
            _ => {
                if self.keyword(b"true") {
                    Ok(Obj::Bool(true))
                } else if self.keyword(b"false") {
                    Ok(Obj::Bool(false))
                } else if self.keyword(b"null") {
                    Ok(Obj::Null)
                } else {
                    self.err("unexpected token")
                }
            }
        }
    }
}

#[derive(Clone, Debug)]
pub enum Entry {
    Free { next: u32, gen: u16 },
    InUse { off: usize, gen: u16 },
    Compressed { stm: u32, idx: u32 },
}

#[derive(Clone, Debug)]
pub struct Section {
    pub offset: usize,
    pub is_stream: bool,
    pub entries: BTreeMap<u32, Entry>,
    pub trailer: Obj,
    pub prev: Option<usize>,
    pub size: i64,
    /// object number of the xref stream itself (if any)
    pub own_num: Option<u32>,
}

pub struct RefDoc<'a> {
    pub bytes: &'a [u8],
    pub version: String,
    /// newest first
    pub sections: Vec<Section>,
    /// merged view, newest wins
    pub xref: BTreeMap<u32, Entry>,
    pub trailer: Obj,
    pub issues: Vec<String>,
    objstm_cache: std::cell::RefCell<BTreeMap<u32, Option<Vec<(u32, Obj)>>>>,
}

pub fn inflate(data: &[u8]) -> Result<Vec<u8>, String> {
    let mut d = flate2::read::ZlibDecoder::new(data);
    let mut out = Vec::new();
    d.read_to_end(&mut out).map_err(|e| format!("inflate: {}", e))?;
    Ok(out)
}

fn png_unpredict(data: &[u8], columns: usize) -> Result<Vec<u8>, String> {
    let row = columns + 1;
    if row == 1 || data.len() % row != 0 {
        return Err("predictor row size mismatch".into());
    }
    let mut out = Vec::with_capacity(data.len());
    let mut prev = vec![0u8; columns];
    for r in data.chunks(row) {
        let mut cur = r[1..].to_vec();
        match r[0] {
            0 => {}
            1 => {
                for i in 1..columns {
                    cur[i] = cur[i].wrapping_add(cur[i - 1]);
                }
            }
            2 => {
                for i in 0..columns {
                    cur[i] = cur[i].wrapping_add(prev[i]);
                }
            }
            _ => return Err("unsupported PNG predictor row type".into()),
        }
        out.extend_from_slice(&cur);
        prev = cur;
    }
    Ok(out)
}

fn rfind(h: &[u8], n: &[u8]) -> Option<usize> {
    if h.len() < n.len() {
        return None;
    }
    (0..=h.len() - n.len()).rev().find(|&i| &h[i..i + n.len()] == n)
}

impl<'a> RefDoc<'a> {
    /// Parse the stream object at `off`; returns (num, gen, object, end offset after `endobj`).
    pub fn indirect_at(&self, off: usize) -> PResult<(u32, u16, Obj, usize)> {
        let b = self.bytes;
        let mut p = P::new(b, off);
        if off >= b.len() || !b[off].is_ascii_digit() {
            return p.err("offset does not point at an object number");
        }
        let num = match p.number()? {
            Obj::Int(n) if n >= 0 => n as u32,
            _ => return p.err("bad object number"),
        };
        if p.peek() != Some(b' ') {
            return p.err("object number not followed by a single space");
        }
        p.skip_ws();
        let gen = match p.number()? {
            Obj::Int(g) if (0..=65535).contains(&g) => g as u16,
            _ => return p.err("bad generation number"),
        };
        p.skip_ws();
        if !p.keyword(b"obj") {
            return p.err("missing `obj` keyword");
        }
        let val = p.object(0)?;
        p.skip_ws();
        let val = if p.keyword(b"stream") {
            let d = match val {
                Obj::Dict(d) => d,
                _ => return p.err("`stream` after a non-dictionary"),
            };
            // EOL after `stream`: CRLF or LF (not CR alone)
            if p.peek() == Some(b'\r') {
                p.i += 1;
            }
            if p.peek() != Some(b'\n') {
                return p.err("`stream` keyword not followed by LF / CRLF");
            }
            p.i += 1;
            let len = match d.iter().find(|(k, _)| k == "Length").map(|(_, v)| v) {
                Some(Obj::Int(l)) if *l >= 0 => *l as usize,
                Some(Obj::Ref(n, _)) => match self.resolve_num(*n) {
                    Some(Obj::Int(l)) if l >= 0 => l as usize,
                    _ => return p.err("indirect /Length does not resolve to a non-negative integer"),
                },
                _ => return p.err("stream without a valid /Length"),
            };
            let s = p.i;
            let e = s.checked_add(len).filter(|e| *e <= b.len()).ok_or_else(|| format!("/Length {} runs past the end of the file (stream data starts at {})", len, s))?;
            p.i = e;
            // optional EOL then `endstream`
            if p.peek() == Some(b'\r') {
                p.i += 1;
            }
            if p.peek() == Some(b'\n') {
                p.i += 1;
            }
            if !p.keyword(b"endstream") {
                return p.err(&format!("/Length {} is not exact: `endstream` does not follow the data", len));
            }
            p.skip_ws();
            Obj::Stream(d, s, e)
        } else {
            val
        };
        if !p.keyword(b"endobj") {
            return p.err("tokens left over before `endobj`");
        }
        Ok((num, gen, val, p.i))
    }

    fn resolve_num(&self, n: u32) -> Option<Obj> {
        match self.xref.get(&n) {
            Some(Entry::InUse { off, .. }) => self.indirect_at(*off).ok().map(|t| t.2),
            _ => None,
        }
    }

    pub fn stream_data(&self, o: &Obj) -> Result<Vec<u8>, String> {
        match o {
            Obj::Stream(d, s, e) => {
                let raw = &self.bytes[*s..*e];
                let filter = d.iter().find(|(k, _)| k == "Filter").map(|(_, v)| v.clone());
                let names: Vec<String> = match filter {
                    None | Some(Obj::Null) => vec![],
                    Some(Obj::Name(n)) => vec![n],
                    Some(Obj::Arr(a)) => a.iter().filter_map(|x| x.as_name().map(|s| s.to_string())).collect(),
                    Some(_) => return Err("bad /Filter".into()),
                };
                let mut data = raw.to_vec();
                for n in &names {
                    match n.as_str() {
                        "FlateDecode" | "Fl" => data = inflate(&data)?,
                        other => return Err(format!("refpdf does not decode /{}", other)),
                    }
                }
                if let Some(parms) = d.iter().find(|(k, _)| k == "DecodeParms").map(|(_, v)| v) {
                    let parms = match parms {
                        Obj::Arr(a) => a.first().cloned().unwrap_or(Obj::Null),
                        x => x.clone(),
                    };
                    if let Some(pred) = parms.get("Predictor").and_then(|x| x.as_int()) {
                        if pred >= 10 {
                            let cols = parms.get("Columns").and_then(|x| x.as_int()).unwrap_or(1) as usize;
                            data = png_unpredict(&data, cols)?;
                        } else if pred != 1 {
                            return Err("refpdf does not undo TIFF predictor".into());
                        }
                    }
                }
                Ok(data)
            }
            _ => Err("not a stream".into()),
        }
    }

    fn parse_section(&mut self, off: usize) -> PResult<Section> {
        let b = self.bytes;
        if off >= b.len() {
            return Err(format!("cross-reference offset {} is beyond the end of the file ({})", off, b.len()));
        }
        let mut p = P::new(b, off);
        if p.keyword(b"xref") {
            let mut entries = BTreeMap::new();
            loop {
                p.skip_ws();
                if p.keyword(b"trailer") {
                    break;
                }
                let start = match p.number()? {
                    Obj::Int(n) if n >= 0 => n as u32,
                    _ => return p.err("bad subsection start"),
                };
                p.skip_ws();
                let count = match p.number()? {
                    Obj::Int(n) if n >= 0 => n as u32,
                    _ => return p.err("bad subsection count"),
                };
                // EOL
                while matches!(p.peek(), Some(b' ')) {
                    p.i += 1;
                }
                if p.peek() == Some(b'\r') {
                    p.i += 1;
                }
                if p.peek() == Some(b'\n') {
                    p.i += 1;
                }
                for k in 0..count {
                    if p.i + 20 > b.len() {
                        return p.err("xref entry truncated");
                    }
                    let line = &b[p.i..p.i + 20];
                    let ok = line[..10].iter().all(|c| c.is_ascii_digit())
                        && line[10] == b' '
                        && line[11..16].iter().all(|c| c.is_ascii_digit())
                        && line[16] == b' '
                        && (line[17] == b'n' || line[17] == b'f')
                        && matches!((line[18], line[19]), (b' ', b'\n') | (b' ', b'\r') | (b'\r', b'\n'));
                    if !ok {
                        return p.err("xref entry is not the 20-byte `nnnnnnnnnn ggggg n|f EOL` form");
                    }
                    let o: usize = std::str::from_utf8(&line[..10]).unwrap().parse().unwrap();
                    let g: u32 = std::str::from_utf8(&line[11..16]).unwrap().parse().unwrap();
                    let e = if line[17] == b'n' { Entry::InUse { off: o, gen: g as u16 } } else { Entry::Free { next: o as u32, gen: g as u16 } };
                    entries.insert(start + k, e);
                    p.i += 20;
                }
            }
            let trailer = p.object(0)?;
            if !matches!(trailer, Obj::Dict(_)) {
                return p.err("trailer is not a dictionary");
            }
            let prev = trailer.get("Prev").and_then(|x| x.as_int()).map(|x| x as usize);
            let size = trailer.get("Size").and_then(|x| x.as_int()).unwrap_or(-1);
            Ok(Section { offset: off, is_stream: false, entries, trailer, prev, size, own_num: None })
        } else {
            let (num, _gen, obj, _end) = self.indirect_at(off)?;
            if obj.get("Type").and_then(|x| x.as_name()) != Some("XRef") {
                return Err(format!("object at the cross-reference offset {} is not /Type /XRef", off));
            }
            let data = self.stream_data(&obj)?;
            let w: Vec<usize> = obj.get("W").and_then(|x| x.as_arr()).map(|a| a.iter().filter_map(|x| x.as_int()).map(|x| x as usize).collect()).unwrap_or_default();
            if w.len() != 3 {
                return Err("xref stream /W is not three integers".into());
            }
            let size = obj.get("Size").and_then(|x| x.as_int()).unwrap_or(-1);
            let index: Vec<i64> = match obj.get("Index").and_then(|x| x.as_arr()) {
                Some(a) => a.iter().filter_map(|x| x.as_int()).collect(),
                None => vec![0, size],
            };
            if index.len() % 2 != 0 {
                return Err("xref stream /Index has odd length".into());
            }
            let esz = w[0] + w[1] + w[2];
            let total: i64 = index.chunks(2).map(|c| c[1]).sum();
            if esz == 0 || data.len() != esz * total as usize {
                return Err(format!("xref stream data length {} is not entries({}) x entry size({})", data.len(), total, esz));
            }
            let mut entries = BTreeMap::new();
            let mut pos = 0;
            let rd = |d: &[u8]| d.iter().fold(0u64, |a, b| (a << 8) | *b as u64);
            for c in index.chunks(2) {
                for k in 0..c[1] {
                    let t = if w[0] == 0 { 1 } else { rd(&data[pos..pos + w[0]]) };
                    let f2 = rd(&data[pos + w[0]..pos + w[0] + w[1]]);
                    let f3 = rd(&data[pos + w[0] + w[1]..pos + esz]);
                    pos += esz;
                    let e = match t {
                        0 => Entry::Free { next: f2 as u32, gen: f3 as u16 },
                        1 => Entry::InUse { off: f2 as usize, gen: f3 as u16 },
                        2 => Entry::Compressed { stm: f2 as u32, idx: f3 as u32 },
                        other => return Err(format!("xref stream entry type {}", other)),
                    };
                    entries.insert((c[0] + k) as u32, e);
                }
            }
            let prev = obj.get("Prev").and_then(|x| x.as_int()).map(|x| x as usize);
            let trailer = match obj {
                Obj::Stream(d, _, _) => Obj::Dict(d),
                o => o,
            };
            Ok(Section { offset: off, is_stream: true, entries, trailer, prev, size, own_num: Some(num) })
        }
    }

    pub fn open(bytes: &'a [u8]) -> Result<RefDoc<'a>, String> {
        if bytes.len() < 8 || &bytes[..5] != b"%PDF-" || !bytes[5].is_ascii_digit() || bytes[6] != b'.' || !bytes[7].is_ascii_digit() {
            return Err("file does not start with %PDF-x.y".into());
        }
        let version = String::from_utf8_lossy(&bytes[5..8]).to_string();
        let sx = rfind(bytes, b"startxref").ok_or("no startxref")?;
        let mut p = P::new(bytes, sx + 9);
        p.skip_ws();
        let off = match p.number()? {
            Obj::Int(n) if n >= 0 => n as usize,
            _ => return Err("startxref value is not a non-negative integer".into()),
        };
        while p.i < bytes.len() && is_ws(bytes[p.i]) {
            p.i += 1; // (not skip_ws: `%%EOF` is syntactically a comment)
        }
        if !(bytes.len() >= p.i + 5 && &bytes[p.i..p.i + 5] == b"%%EOF") {
            return Err("startxref value is not followed by %%EOF".into());
        }
        let mut doc = RefDoc { bytes, version, sections: vec![], xref: BTreeMap::new(), trailer: Obj::Null, issues: vec![], objstm_cache: Default::default() };
        let mut next = Some(off);
        let mut seen = BTreeSet::new();
        while let Some(o) = next {
            if !seen.insert(o) {
                return Err("/Prev chain loops".into());
            }
            // entries of older sections must not be needed to parse newer ones (indirect /Length is
            // resolved through what has been merged so far)
            let sec = doc.parse_section(o)?;
            for (n, e) in &sec.entries {
                doc.xref.entry(*n).or_insert_with(|| e.clone());
            }
            if doc.sections.is_empty() {
                doc.trailer = sec.trailer.clone();
            }
            next = sec.prev;
            doc.sections.push(sec);
        }
        Ok(doc)
    }

    fn objstm(&self, stm: u32) -> Option<Vec<(u32, Obj)>> {
        if let Some(c) = self.objstm_cache.borrow().get(&stm) {
            return c.clone();
        }
        let r = (|| {
            let off = match self.xref.get(&stm)? {
                Entry::InUse { off, .. } => *off,
                _ => return None,
            };
            let (_, _, o, _) = self.indirect_at(off).ok()?;
            if o.get("Type").and_then(|x| x.as_name()) != Some("ObjStm") {
                return None;
            }
            let n = o.get("N")?.as_int()? as usize;
            let first = o.get("First")?.as_int()? as usize;
            let data = self.stream_data(&o).ok()?;
            let mut p = P::new(&data, 0);
            let mut pairs = vec![];
            for _ in 0..n {
                p.skip_ws();
                let num = p.number().ok()?.as_int()? as u32;
                p.skip_ws();
                let off = p.number().ok()?.as_int()? as usize;
                pairs.push((num, off));
            }
            let mut out = vec![];
            for (i, (num, off)) in pairs.iter().enumerate() {
                let start = first + off;
                let end = pairs.get(i + 1).map(|(_, o2)| first + o2).unwrap_or(data.len());
                if start > data.len() || end > data.len() || start > end {
                    return None;
                }
                let slice = &data[..end];
                let mut q = P::new(slice, start);
                let v = q.object(0).ok()?;
                q.skip_ws();
                if q.i != end {
                    return None; // left-over tokens inside the object's slot
                }
                out.push((*num, v));
            }
            Some(out)
        })();
        self.objstm_cache.borrow_mut().insert(stm, r.clone());
        r
    }

    /// Latest definition of object `n` (None for free / missing).
    pub fn object(&self, n: u32) -> Option<Obj> {
        match self.xref.get(&n)? {
            Entry::InUse { off, .. } => {
                let (num, _, o, _) = self.indirect_at(*off).ok()?;
                if num == n {
                    Some(o)
                } else {
                    None
                }
            }
            Entry::Compressed { stm, idx } => {
                let v = self.objstm(*stm)?;
                let (num, o) = v.get(*idx as usize)?;
                if *num == n {
                    Some(o.clone())
                } else {
                    None
                }
            }
            Entry::Free { .. } => None,
        }
    }

    pub fn resolve(&self, o: &Obj) -> Obj {
        let mut cur = o.clone();
        for _ in 0..32 {
            match cur {
                Obj::Ref(n, _) => cur = self.object(n).unwrap_or(Obj::Null),
                other => return other,
            }
        }
        Obj::Null
    }

    /// Full structural validation (C03). Returns the list of problems (empty = well-formed).
    pub fn validate(&self) -> Vec<String> {
        let mut issues = vec![];
        let b = self.bytes;
        // /Size = highest object number + 1 (over the merged table); every section's Size consistent
        let max_num = self.xref.keys().max().copied().unwrap_or(0) as i64;
        let size = self.sections.first().map(|s| s.size).unwrap_or(-1);
        if size != max_num + 1 {
            issues.push(format!("/Size is {} but the highest object number is {} (expected {})", size, max_num, max_num + 1));
        }
        if !matches!(self.xref.get(&0), Some(Entry::Free { .. })) {
            issues.push("object 0 is not a free entry".into());
        }
        // a cross-reference stream is itself an indirect object: it needs an entry (pointing at
        // itself) and its number counts towards /Size (ISO 32000-1 §7.5.8)
        for s in &self.sections {
            if let Some(n) = s.own_num {
                match s.entries.get(&n) {
                    Some(Entry::InUse { off, .. }) if *off == s.offset => {}
                    Some(_) => issues.push(format!("cross-reference stream object {} (offset {}) has an entry that does not point at it", n, s.offset)),
                    None => issues.push(format!("cross-reference stream object {} has no entry for itself", n)),
                }
                if (n as i64) >= s.size {
                    issues.push(format!("/Size is {} but the cross-reference stream itself is object {}", s.size, n));
                }
            }
        }
        let mut reachable: Vec<Obj> = vec![self.trailer.clone()];
        // every in-use entry points at the exact byte where `N G obj` begins; every object parses
        for (n, e) in &self.xref {
            match e {
                Entry::InUse { off, gen } => match self.indirect_at(*off) {
                    Ok((num, g, o, _)) => {
                        if num != *n || g != *gen {
                            issues.push(format!("xref entry for {} {} points at object {} {} (offset {})", n, gen, num, g, off));
                        }
                        if *off > 0 && !matches!(b[*off - 1], b'\n' | b'\r') {
                            issues.push(format!("object {} at offset {} does not start at the beginning of a line", n, off));
                        }
                        reachable.push(o);
                    }
                    Err(m) => issues.push(format!("object {} (offset {}): {}", n, off, m)),
                },
                Entry::Compressed { stm, idx } => match self.objstm(*stm) {
                    Some(v) => match v.get(*idx as usize) {
                        Some((num, o)) if num == n => reachable.push(o.clone()),
                        Some((num, _)) => issues.push(format!("object {} is recorded at index {} of object stream {}, which holds object {} there", n, idx, stm, num)),
                        None => issues.push(format!("object {} is recorded at index {} of object stream {}, which has only {} objects", n, idx, stm, v.len())),
                    },
                    None => issues.push(format!("object {} refers to object stream {}, which is missing or malformed", n, stm)),
                },
                Entry::Free { .. } => {}
            }
        }
        // every indirect reference resolves to an in-use (or compressed) entry
        fn refs(o: &Obj, out: &mut Vec<(u32, u16)>) {
            match o {
                Obj::Ref(n, g) => out.push((*n, *g)),
                Obj::Arr(a) => a.iter().for_each(|x| refs(x, out)),
                Obj::Dict(d) | Obj::Stream(d, _, _) => d.iter().for_each(|(_, x)| refs(x, out)),
                _ => {}
            }
        }
        let mut rs = vec![];
        for o in &reachable {
            refs(o, &mut rs);
        }
        rs.sort();
        rs.dedup();
        for (n, g) in rs {
            match self.xref.get(&n) {
                Some(Entry::InUse { gen, .. }) if *gen == g => {}
                Some(Entry::Compressed { .. }) if g == 0 => {}
                Some(Entry::InUse { gen, .. }) => issues.push(format!("reference {} {} R names generation {} but the entry has generation {}", n, g, g, gen)),
                _ => issues.push(format!("reference {} {} R does not resolve to an in-use object", n, g)),
            }
        }
        if self.resolve(self.trailer.get("Root").unwrap_or(&Obj::Null)).get("Type").and_then(|x| x.as_name()) != Some("Catalog") {
            issues.push("trailer /Root does not resolve to a /Type /Catalog dictionary".into());
        }
        issues
    }

    /// Leaf pages in document order with inherited attributes resolved.
    pub fn pages(&self) -> Vec<RefPage> {
        let mut out = vec![];
        let root = self.resolve(self.trailer.get("Root").unwrap_or(&Obj::Null));
        let pages = self.resolve(root.get("Pages").unwrap_or(&Obj::Null));
        fn walk(d: &RefDoc, node: &Obj, inh_box: Option<[f64; 4]>, inh_rot: i64, depth: u32, out: &mut Vec<RefPage>) {
            if depth > 40 {
                return;
            }
            let mb = node
                .get("MediaBox")
                .map(|x| d.resolve(x))
                .and_then(|x| x.as_arr().cloned())
                .and_then(|a| if a.len() == 4 { Some([a[0].as_num()?, a[1].as_num()?, a[2].as_num()?, a[3].as_num()?]) } else { None })
                .or(inh_box);
            let rot = node.get("Rotate").map(|x| d.resolve(x)).and_then(|x| x.as_int()).unwrap_or(inh_rot);
            match node.get("Type").and_then(|x| x.as_name()) {
                Some("Pages") => {
                    if let Some(kids) = node.get("Kids").map(|x| d.resolve(x)).and_then(|x| x.as_arr().cloned()) {
                        for k in kids {
                            let kid = d.resolve(&k);
                            walk(d, &kid, mb, rot, depth + 1, out);
                        }
                    }
                }
                Some("Page") => {
                    let mut content = vec![];
                    let mut content_err = None;
                    let c = node.get("Contents").map(|x| d.resolve(x)).unwrap_or(Obj::Null);
                    let parts: Vec<Obj> = match &c {
                        Obj::Arr(a) => a.iter().map(|x| d.resolve(x)).collect(),
                        Obj::Null => vec![],
                        other => vec![other.clone()],
                    };
                    for (i, s) in parts.iter().enumerate() {
                        match d.stream_data(s) {
                            Ok(mut bytes) => {
                                if i > 0 {
                                    content.push(b'\n');
                                }
                                content.append(&mut bytes);
                            }
                            Err(e) => content_err = Some(e),
                        }
                    }
                    out.push(RefPage { media_box: mb, rotate: rot, content, content_err, dict: node.clone() });
                }
                _ => {}
            }
        }
        walk(self, &pages, None, 0, 0, &mut out);
        out
    }
}

#[derive(Clone, Debug)]
pub struct RefPage {
    pub media_box: Option<[f64; 4]>,
    pub rotate: i64,
    pub content: Vec<u8>,
    pub content_err: Option<String>,
    pub dict: Obj,
}
