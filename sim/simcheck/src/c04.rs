//! C04 — the newest revision of an object always wins.
//! Synthetic append-only revision histories (ground truth by construction) are read back through
//! SimSource after every appended revision and compared, object by object, with a reference map.

use crate::common::*;
use crate::disk::*;
use crate::runner::*;
use crate::simdisk::*;
use crate::simseam::ProcEnv;
use crate::synth::*;
use oxidize_pdf::parser::objects::PdfObject;
use oxidize_pdf::parser::PdfReader;
use serde::{Deserialize, Serialize};
use serde_json::Value;
use std::sync::Arc;

pub struct C04;

#[derive(Clone, Debug, Serialize, Deserialize)]
pub struct Case {
    pub spec: SynthSpec,
    pub preset: String,
    pub source: SourcePlan,
    /// damage applied to the final image so that the recovery scan is used (C19 catalogue ids)
    pub damage: Vec<crate::damage::Damage>,
    pub entropy_seed: u64,
}

fn gen_case(cs: u64) -> Case {
    let mut r = Rng::new(cs);
    let recover = r.chance(1, 6);
    let spec = gen_spec(
        &mut r,
        &GenOpts { max_updates: 5, allow_objstm: !recover, allow_xref_stream: !recover, allow_free: !recover },
    );
    // Only fault-free and successful-partial-transfer source plans: after an error-class fault
    // (I/O error, EINTR, early EOF) the reader may legitimately fall back to the header scan or see
    // a torn file, where "newest" is no longer defined by the full image. Those faults are C01's.
    let mode = match r.below(10) {
        0..=5 => 0,
        _ => 1,
    };
    let built = build(&spec);
    let source = gen_source_plan(&mut r, mode, 60, built.bytes.len() as u64);
    let damage = if recover { crate::damage::gen_recovery_forcing(&mut r) } else { vec![] };
    Case {
        spec,
        preset: if recover { r.pick(&["default", "tolerant", "skip_errors"]).to_string() } else { r.pick(&["strict", "default", "tolerant", "skip_errors"]).to_string() },
        source,
        damage,
        entropy_seed: r.next_u64(),
    }
}

/// What the object should look like, as (kind, value).
fn matches(o: &PdfObject, v: i64, kind: Kind) -> bool {
    let dict_v = |d: &oxidize_pdf::parser::objects::PdfDictionary| d.get("V").and_then(|x| x.as_integer()) == Some(v);
    match kind {
        Kind::Int => o.as_integer() == Some(v),
        Kind::Array => o.as_array().and_then(|a| a.get(0)).and_then(|x| x.as_integer()) == Some(v),
        Kind::Stream => o.as_stream().map(|s| dict_v(&s.dict) && s.raw_data() == format!("data-{}", v).as_bytes()).unwrap_or(false),
        Kind::Dict | Kind::Catalog | Kind::Pages | Kind::Page => o.as_dict().map(dict_v).unwrap_or(false),
    }
}

fn check_image(
    c: &Case,
    image: Arc<Vec<u8>>,
    model: &Model,
    rev: usize,
    recovering: bool,
    out: &mut Outcome,
) {
    let faulty = !c.source.only_short();
    let (src, stats) = SimSource::new(image, c.source.clone());
    let opened = PdfReader::new_with_options(src, preset(&c.preset));
    let mut h = out.log_digest;
    let mut rd = match opened {
        Ok(r) => r,
        Err(e) => {
            let st = stats.lock().unwrap().clone();
            bump_io(out, "src_", &st);
            out.log_digest = mix(h, st.log);
            if faulty {
                out.bump("degraded.open_err_under_error_faults", 1);
            } else {
                out.violate(
                    if recovering { "recovery-open-failed" } else { "open-failed" },
                    format!("revision {} image does not open under preset {}: {}", rev, c.preset, e),
                );
            }
            return;
        }
    };
    for (num, st) in model {
        match st.val {
            Some((v, kind)) => {
                if recovering && (st.in_objstm) {
                    continue;
                }
                match rd.get_object(*num, st.gen) {
                    Ok(o) => {
                        h = fnv1a_more(h, rendered(o).as_bytes());
                        if faulty && o.is_null() {
                            // lenient presets turn a failed load into a null object; under injected
                            // error-class faults that is a failure report, not a stale value
                            out.bump("degraded.null_under_error_faults", 1);
                            continue;
                        }
                        if !matches(o, v, kind) {
                            out.violate(
                                &format!("{}stale-or-wrong-object", if recovering { "recovery-" } else { "" }),
                                format!(
                                    "after revision {} object {} {} should be {:?} with value {} (last written in revision {}, {}), library returned {}",
                                    rev, num, st.gen, kind, v, st.rev, if st.in_objstm { "in an object stream" } else { "plain" }, rendered(o)
                                ),
                            );
                            break;
                        }
                    }
                    Err(e) => {
                        if faulty {
                            out.bump("degraded.get_object_err_under_error_faults", 1);
                        } else {
                            out.violate(
                                &format!("{}object-unreadable", if recovering { "recovery-" } else { "" }),
                                format!("after revision {} get_object({}, {}) failed: {} (expected {:?} value {})", rev, num, st.gen, e, kind, v),
                            );
                            break;
                        }
                    }
                }
            }
            None => {
                if recovering {
                    continue; // a header scan cannot know about free entries
                }
                // freed: the reference that used to name it (previous generation) must read as null
                let old_gen = st.gen.saturating_sub(1);
                match rd.get_object(*num, old_gen) {
                    Ok(o) => {
                        h = fnv1a_more(h, rendered(o).as_bytes());
                        if !o.is_null() {
                            out.violate(
                                "freed-object-not-null",
                                format!("after revision {} object {} was freed (revision {}), yet get_object({}, {}) returned {}", rev, num, st.rev, num, old_gen, rendered(o)),
                            );
                            break;
                        }
                        out.bump("probe.freed_object_read", 1);
                    }
                    Err(e) => {
                        if faulty {
                            out.bump("degraded.get_object_err_under_error_faults", 1);
                        } else if c.preset == "strict" || c.preset == "default" {
                            // strict generation checking may refuse the stale reference; an error is not
                            // "resolves to a stale value", so it is tolerated and counted
                            out.bump("tolerated.freed_object_err", 1);
                            let _ = e;
                        } else {
                            out.violate("freed-object-unreadable", format!("after revision {} get_object({}, {}) on a freed object failed: {}", rev, num, old_gen, e));
                            break;
                        }
                    }
                }
            }
        }
    }
    if out.violation.is_none() && !faulty {
        match rd.page_count() {
            Ok(n) => {
                h = fnv1a_more(h, &n.to_le_bytes());
                if n != 1 {
                    out.violate(
                        &format!("{}page-count", if recovering { "recovery-" } else { "" }),
                        format!("after revision {} page_count() = {}, expected 1", rev, n),
                    );
                }
            }
            Err(e) => {
                if !faulty {
                    out.violate(&format!("{}page-count", if recovering { "recovery-" } else { "" }), format!("after revision {} page_count() failed: {}", rev, e));
                }
            }
        }
    }
    let st = stats.lock().unwrap().clone();
    bump_io(out, "src_", &st);
    out.log_digest = mix(h, st.log);
}

fn exec_inner(c: &Case, out: &mut Outcome) {
    let built = build(&c.spec);
    let nrev = built.models.len();
    out.bump("revisions", nrev as u64);
    let multi = nrev >= 2;
    let mut moved = 0;
    if multi {
        // interesting histories: an object changes placement (plain <-> object stream) or is freed/re-added
        for (num, st) in &built.models[nrev - 1] {
            if st.rev > 0 {
                let before = built.models[0].get(num);
                if before.map(|b| b.in_objstm != st.in_objstm || b.val.is_none() != st.val.is_none() || b.gen != st.gen).unwrap_or(true) {
                    moved += 1;
                }
            }
        }
    }
    out.bump("probe.object_changed_placement_or_liveness", (moved > 0) as u64);
    out.bump("probe.mixed_table_and_stream_chain", (c.spec.revisions.iter().any(|r| r.xref_stream) && c.spec.revisions.iter().any(|r| !r.xref_stream)) as u64);
    out.nontrivial = multi;
    let mut dg = fnv1a(serde_json::to_string(&c.spec).unwrap().as_bytes());
    dg = fnv1a_more(dg, c.preset.as_bytes());
    out.digest = dg;
    if c.damage.is_empty() {
        for i in 0..nrev {
            let img = Arc::new(built.bytes[..built.layouts[i].end].to_vec());
            check_image(c, img, &built.models[i], i, false, out);
            if out.violation.is_some() {
                return;
            }
        }
    } else {
        let mut img = built.bytes.clone();
        let fired = crate::damage::apply_all(&mut img, &c.damage);
        out.bump("fault.stored_xref_damage", fired as u64);
        out.bump("probe.recovery_variant", 1);
        check_image(c, Arc::new(img), &built.models[nrev - 1], nrev - 1, true, out);
    }
}

impl Property for C04 {
    fn id(&self) -> &'static str {
        "C04"
    }
    fn engine(&self) -> Engine {
        Engine::Disk
    }
    fn cases(&self, tier: Tier) -> u64 {
        match tier {
            Tier::Quick => 20_000,
            Tier::Thorough => 600_000,
        }
    }
    fn gen(&self, cs: u64, _tier: Tier, _ctx: &ExecCtx) -> Value {
        serde_json::to_value(gen_case(cs)).unwrap()
    }
    fn exec(&self, case: &Value, ctx: &ExecCtx) -> Outcome {
        let c: Case = match serde_json::from_value(case.clone()) {
            Ok(c) => c,
            Err(e) => {
                let mut o = Outcome::default();
                o.violate("harness-bad-case", e.to_string());
                return o;
            }
        };
        let env = ProcEnv::fixed(c.entropy_seed);
        let mut o = in_case_thread(ctx, &env, 20_000, move |out| exec_inner(&c, out));
        o.bump("cases", 1);
        o
    }
    fn shrink(&self, case: &Value) -> Vec<Value> {
        let c: Case = match serde_json::from_value(case.clone()) {
            Ok(c) => c,
            Err(_) => return vec![],
        };
        let mut v = vec![];
        let push = |n: Case, v: &mut Vec<Value>| v.push(serde_json::to_value(&n).unwrap());
        if !c.source.is_faultless() {
            let mut n = c.clone();
            n.source = SourcePlan::default();
            push(n, &mut v);
        }
        // drop whole trailing / middle revisions
        for i in (1..c.spec.revisions.len()).rev() {
            let mut n = c.clone();
            n.spec.revisions.remove(i);
            push(n, &mut v);
        }
        // drop single ops (never the structural objects of the base)
        for (ri, rev) in c.spec.revisions.iter().enumerate() {
            for oi in 0..rev.ops.len() {
                if ri == 0 && matches!(rev.ops[oi], ObjOp::Define { kind: Kind::Catalog | Kind::Pages | Kind::Page, .. }) {
                    continue;
                }
                if rev.ops.len() == 1 && ri > 0 {
                    continue;
                }
                let mut n = c.clone();
                n.spec.revisions[ri].ops.remove(oi);
                push(n, &mut v);
            }
        }
        // simplify: no compression inside containers
        for ri in 0..c.spec.revisions.len() {
            if c.spec.revisions[ri].objstm_flate {
                let mut n = c.clone();
                n.spec.revisions[ri].objstm_flate = false;
                push(n, &mut v);
            }
        }
        for d in 0..c.damage.len() {
            if c.damage.len() > 1 {
                let mut n = c.clone();
                n.damage.remove(d);
                push(n, &mut v);
            }
        }
        v
    }
    fn sample(&self, case: &Value) -> Value {
        truncate_json(case, 200)
    }
    fn describe(&self) -> Describe {
        Describe {
            rule: "case = seeded revision history written by the harness's own synthetic PDF writer: base of 4-12 uniquely valued objects (plain or in an object stream, xref table or stream), then 0-5 appended revisions of redefine / free / re-add, each revision in table or stream form; after EVERY appended revision the image is opened through SimSource (fault-free or short reads at every offset) under one preset and every object is compared with the reference map (freed => null; in use => the newest value). 1 in 6 cases is the recovery variant: plain objects, table xref, final image's xref damaged so the header scan is used. non-trivial = history with >= 2 revisions; distinct = digest of (history, preset).".into(),
            assumptions: vec![
                "the synthetic writer (sim/simcheck/src/synth.rs) emits files that are valid per ISO 32000-1 7.5 (checked by also opening every base under strict)".into(),
                "source plans are fault-free or successful partial transfers only; error-class source faults are left to C01 because a reader that falls back to the header scan after an I/O error is no longer bound by free entries".into(),
                "a stale reference to a freed object may be refused with an error by strict generation checking; only a non-null VALUE is a violation".into(),
            ],
            real_components: vec!["parser::xref (incl. /Prev merge, xref streams)".into(), "parser::reader::PdfReader::get_object / load_object_from_disk".into(), "parser::object_stream".into(), "recovery scan (variant)".into()],
            stub_components: vec!["byte source: SimSource instead of File/Cursor".into(), "OS entropy / clock / pid: libsim.so".into()],
            fault_kinds: vec!["src short_read".into(), "stored xref damage (recovery variant)".into()],
            level: "exploration",
            exhaustive_note: None,
        }
    }
}
