//! C03 — written files are structurally valid PDF.
//! Generated authoring programs (tricky names and text, optional encryption) are written under
//! every writer configuration through a fault-injecting sink; the image left on the simulated
//! disk is checked by the independent structural reader (refpdf) and by the library's strict
//! parser. Under sink errors the writer must report failure or leave a complete, valid file.

use crate::common::*;
use crate::disk::*;
use crate::gen::*;
use crate::refpdf::RefDoc;
use crate::runner::*;
use crate::simdisk::*;
use crate::simseam::ProcEnv;
use oxidize_pdf::parser::PdfReader;
use oxidize_pdf::writer::PdfWriter;
use serde::{Deserialize, Serialize};
use serde_json::Value;
use std::io::{BufWriter, Cursor};

pub struct C03;

#[derive(Clone, Debug, Serialize, Deserialize)]
pub struct Case {
    pub program: Program,
    pub cfg: WCfg,
    pub enc: Option<EncSpec>,
    pub sink: SinkPlan,
    pub entropy_seed: u64,
}

fn gen_sink_plan(r: &mut Rng, approx_writes: u64, approx_len: u64) -> SinkPlan {
    let mut p = SinkPlan::default();
    p.buffered = r.chance(1, 3);
    match r.below(10) {
        0..=3 => {}
        4..=5 => {
            p.short_seed = r.next_u64();
            p.short_max_chunk = *r.pick(&[1usize, 2, 7, 64, 1000, 4096]);
        }
        6 => p.eintr_at = (0..1 + r.below(3)).map(|_| 1 + r.below(approx_writes.max(2))).collect(),
        7 => p.zero_at = vec![1 + r.below(approx_writes.max(2))],
        8 => {
            if r.chance(1, 2) {
                p.err_write_at = Some(1 + r.below(approx_writes.max(2)));
            } else {
                p.full_at_byte = Some(r.below(approx_len.max(2)));
            }
        }
        _ => p.err_flush_at = Some(1),
    }
    p
}

fn gen_case(cs: u64) -> Case {
    let mut r = Rng::new(cs);
    let tricky_names = r.chance(1, 3);
    let program = gen_program(&mut r, &GenProgOpts { max_pages: 3, tricky_text: true, images: true, big_images: false, rich: true, tricky_names });
    let mut program = program;
    if r.chance(1, 25) {
        add_many_pages(&mut r, &mut program);
    }
    let cfgs = all_configs();
    let mut cfg = cfgs[r.usize_below(cfgs.len())].clone();
    if cfg.object_streams && !r.chance(1, 4) {
        cfg.object_streams = false;
    }
    let enc = if r.chance(1, 4) { Some(gen_enc(&mut r)) } else { None };
    let sink = gen_sink_plan(&mut r, 400, 6000);
    Case { program, cfg, enc, sink, entropy_seed: r.next_u64() }
}

pub fn write_through<W: std::io::Write>(p: &Program, cfg: &WCfg, enc: &Option<EncSpec>, w: W) -> Result<Result<(), String>, String> {
    let mut doc = build_document(p)?;
    if let Some(e) = enc {
        apply_encryption(&mut doc, e);
    }
    let mut pw = PdfWriter::with_config(w, cfg.to_config());
    let r = pw.write_document(&mut doc).map_err(|e| e.to_string());
    drop(pw);
    Ok(r)
}

/// Everything C03 demands of one file image. Returns (class, detail) of the first problem.
pub fn structural_verdict(img: &[u8], enc: &Option<EncSpec>, out: &mut Outcome) -> Option<(String, String)> {
    // (1) independent structural reader
    match RefDoc::open(img) {
        Err(e) => return Some(("independent-reader-cannot-open".into(), e)),
        Ok(d) => {
            let issues = d.validate();
            out.bump("objects_validated", d.xref.len() as u64);
            if d.sections.first().map(|s| s.is_stream).unwrap_or(false) {
                out.bump("probe.xref_stream_validated", 1);
            }
            if d.xref.values().any(|e| matches!(e, crate::refpdf::Entry::Compressed { .. })) {
                out.bump("probe.object_stream_validated", 1);
            }
            if let Some(first) = issues.first() {
                let class = if first.contains("/Size") {
                    "size-not-exact"
                } else if first.contains("/Length") {
                    "stream-length-not-exact"
                } else if first.contains("does not resolve") {
                    "dangling-reference"
                } else if first.contains("points at object") || first.contains("offset does not point") {
                    "xref-offset-wrong"
                } else {
                    "object-syntax"
                };
                return Some((format!("independent-checker:{}", class), format!("{} issue(s), first: {}", issues.len(), first)));
            }
        }
    }
    // (2) the library's strict parser, no recovery
    match PdfReader::new_with_options(Cursor::new(img.to_vec()), preset("strict")) {
        Err(e) => return Some(("strict-parser-rejects".into(), format!("PdfReader (strict) cannot open the written file: {}", e))),
        Ok(mut rd) => {
            if let Some(e) = enc {
                match rd.unlock_with_password(&e.user) {
                    Ok(true) => {}
                    Ok(false) | Err(_) => match rd.unlock_with_password(&e.owner) {
                        Ok(true) => {}
                        other => return Some(("strict-parser-cannot-unlock".into(), format!("neither password unlocks the written file ({:?})", other.map_err(|e| e.to_string())))),
                    },
                }
            }
            let n = match rd.page_count() {
                Ok(n) => n,
                Err(e) => return Some(("strict-parser-rejects".into(), format!("page_count (strict): {}", e))),
            };
            let doc = rd.into_document();
            for i in 0..n {
                match doc.get_page(i) {
                    Ok(pg) => {
                        if let Err(e) = doc.get_page_content_streams(&pg) {
                            return Some(("strict-parser-rejects".into(), format!("content streams of page {} (strict): {}", i, e)));
                        }
                    }
                    Err(e) => return Some(("strict-parser-rejects".into(), format!("get_page({}) (strict): {}", i, e))),
                }
            }
            out.bump("pages_walked_strict", n as u64);
        }
    }
    None
}

/// Phase 1 (own thread): fault-free serialisation into a Vec and the structural verdict on it.
fn phase_reference(c: &Case, out: &mut Outcome) {
    let mut reference: Vec<u8> = Vec::new();
    match write_through(&c.program, &c.cfg, &c.enc, &mut reference) {
        Err(_) => {
            out.bump("skipped.unbuildable_program", 1);
            return;
        }
        Ok(Err(e)) => {
            out.bump("skipped.writer_refused_document", 1);
            let _ = e;
            return;
        }
        Ok(Ok(())) => {}
    }
    if let Ok(path) = std::env::var("VERIF_DUMP") {
        let _ = std::fs::write(path, &reference); // diagnosis aid only
    }
    out.nontrivial = true;
    out.digest = fnv1a(&reference);
    out.bump(&format!("cfg.{}", c.cfg.label()), 1);
    out.bump("output_bytes", reference.len() as u64);
    if c.enc.is_some() {
        out.bump("probe.encrypted_output", 1);
    }
    if reference.len() > 2_000_000 {
        out.bump("probe.huge_output_over_2MB", 1);
    }
    if let Some((class, detail)) = structural_verdict(&reference, &c.enc, out) {
        out.violate(&class, format!("config {}{}: {}", c.cfg.label(), if c.enc.is_some() { " encrypted" } else { "" }, detail));
        let mut nc = c.clone();
        nc.sink = SinkPlan::default();
        out.refined = Some(serde_json::to_value(&nc).unwrap());
        return;
    }
    out.refined = Some(Value::String(hex(&reference)));
}

/// Phase 2 (own thread, same process environment => same entropy stream, so the same bytes are
/// expected): the same document through the faulty sink.
fn phase_faulty(c: &Case, reference: &[u8], out: &mut Outcome) {
    let (sink, image, stats) = SimSink::new(c.sink.clone());
    let result = if c.sink.buffered {
        // the composition Document::save uses
        write_through(&c.program, &c.cfg, &c.enc, BufWriter::with_capacity(512 * 1024, sink))
    } else {
        write_through(&c.program, &c.cfg, &c.enc, sink)
    };
    let st = stats.lock().unwrap().clone();
    bump_io(out, "sink_", &st);
    out.log_digest = mix(out.log_digest, st.log);
    let img = image.lock().unwrap().clone();
    let fired_error = st.err_fired + st.flush_err_fired + st.zero_fired + st.eintr_fired > 0;
    match result {
        Err(_) => {}
        Ok(Err(_)) => {
            out.bump("writer_reported_failure", 1);
            if !fired_error {
                out.violate("failed-under-successful-partial-writes", format!("config {}: write_document returned Err although the sink only shortened writes (never failed)", c.cfg.label()));
            }
        }
        Ok(Ok(())) => {
            // AES initialisation vectors are derived from (time, pid, counter AND the thread id),
            // and the two serialisations run on two threads: equal bytes cannot be expected there,
            // only a complete and valid file
            let aes = c.enc.as_ref().map(|e| e.strength % 4 >= 2).unwrap_or(false);
            if aes && !fired_error {
                if let Some((class, detail)) = structural_verdict(&img, &c.enc, out) {
                    out.violate(&format!("partial-writes:{}", class), format!("config {} (AES, through a shortening sink): {}", c.cfg.label(), detail));
                }
            } else if img != reference {
                let complete = structural_verdict(&img, &c.enc, out).is_none();
                if fired_error {
                    if !complete {
                        out.violate(
                            "ok-but-torn-file",
                            format!(
                                "config {} sink {:?}: write_document returned Ok, but the file on the disk is incomplete or invalid ({} of {} bytes stored)",
                                c.cfg.label(), c.sink, img.len(), reference.len()
                            ),
                        );
                    }
                } else {
                    out.violate(
                        "bytes-differ-under-successful-partial-writes",
                        format!("config {}: with short writes the stored image ({} bytes) differs from the fault-free one ({} bytes)", c.cfg.label(), img.len(), reference.len()),
                    );
                }
            }
        }
    }
}

impl Property for C03 {
    fn id(&self) -> &'static str {
        "C03"
    }
    fn engine(&self) -> Engine {
        Engine::Disk
    }
    fn cases(&self, tier: Tier) -> u64 {
        match tier {
            Tier::Quick => 3_000,
            Tier::Thorough => 45_000,
        }
    }
    fn gen(&self, cs: u64, _tier: Tier, _ctx: &ExecCtx) -> Value {
        serde_json::to_value(gen_case(cs)).unwrap()
    }
    fn exec(&self, case: &Value, ctx: &ExecCtx) -> Outcome {
        let c: Case = match serde_json::from_value(case.clone()) {
            Ok(c) => c,
            Err(e) => {
                let mut o = Outcome::default();
                o.violate("harness-bad-case", e.to_string());
                return o;
            }
        };
        let env = ProcEnv::fixed(c.entropy_seed);
        let c1 = c.clone();
        let mut total = in_case_thread(ctx, &env, 120_000, move |out| phase_reference(&c1, out));
        if total.violation.is_some() {
            return total;
        }
        let reference = match total.refined.take() {
            Some(Value::String(h)) => unhex(&h),
            _ => return total,
        };
        if c.sink.is_faultless() && !c.sink.buffered {
            return total;
        }
        let c2 = c.clone();
        let o = in_case_thread(ctx, &env, 120_000, move |out| phase_faulty(&c2, &reference, out));
        for (k, v) in &o.counters {
            if k.starts_with("max.") {
                let cur = total.counters.get(k).copied().unwrap_or(0);
                total.counters.insert(k.clone(), cur.max(*v));
            } else {
                total.bump(k, *v);
            }
        }
        total.sim_steps += o.sim_steps;
        total.log_digest = mix(total.log_digest, o.log_digest);
        if let Some(v) = o.violation {
            total.violation = Some(v);
        }
        total
    }
    fn shrink(&self, case: &Value) -> Vec<Value> {
        let c: Case = match serde_json::from_value(case.clone()) {
            Ok(c) => c,
            Err(_) => return vec![],
        };
        let mut v = vec![];
        let push = |n: Case, v: &mut Vec<Value>| v.push(serde_json::to_value(&n).unwrap());
        if c.enc.is_some() {
            let mut n = c.clone();
            n.enc = None;
            push(n, &mut v);
        }
        for p in shrink_program(&c.program) {
            let mut n = c.clone();
            n.program = p;
            push(n, &mut v);
        }
        if c.sink.buffered {
            let mut n = c.clone();
            n.sink.buffered = false;
            push(n, &mut v);
        }
        v
    }
    fn sample(&self, case: &Value) -> Value {
        truncate_json(case, 120)
    }
    fn describe(&self) -> Describe {
        Describe {
            rule: "case = generated authoring program (text with PDF delimiters/non-ASCII, user-chosen image/pattern/field names with delimiters and whitespace, graphics, images, patterns, shadings, ExtGStates, form XObjects, notes, form fields, outline) x writer configuration x optional encryption (RC4-40/128, AES-128/256; assorted passwords and permission bits) x sink plan (fault-free | short writes | EINTR | zero-length write | I/O error at the n-th write | ENOSPC at byte b | flush error; 1 in 3 wrapped in the 512 KiB BufWriter that Document::save uses). The fault-free image must pass the independent structural reader (header, startxref -> last xref section, every in-use offset is the byte where `N G obj` begins, compressed entries match their object stream slots, /Size exact, every stream /Length exact, every reference resolves, every object tokenizes under the strict grammar with nothing left before endobj) AND open in the library's strict parser (no recovery) with all pages walked. Through a faulty sink: Err, or a stored image that is complete and valid; through a merely shortening sink: Ok and identical bytes. non-trivial = program that serialised; distinct = digest of the output bytes.".into(),
            assumptions: vec![
                "refpdf (sim/simcheck/src/refpdf.rs) is independent of the library's parser but written for this harness, not a third-party tool (none is installed)".into(),
                "for encrypted output refpdf checks structure only (it does not decrypt)".into(),
                "an authoring call the API refuses (invalid resource name) is skipped, not a violation".into(),
            ],
            real_components: vec!["authoring API".into(), "writer::PdfWriter (byte accounting, xref table/stream, object streams, encryption at write time)".into(), "parser (strict preset) as second checker".into()],
            stub_components: vec!["sink: SimSink / BufWriter<SimSink>".into(), "entropy/clock/pid: libsim.so".into(), "independent checker: refpdf (harness)".into()],
            fault_kinds: vec!["sink short_write".into(), "sink eintr".into(), "sink zero_write".into(), "sink io_error at n-th write".into(), "sink ENOSPC at byte b".into(), "sink flush_error".into(), "late error through BufWriter".into()],
            level: "exploration",
            exhaustive_note: None,
        }
    }
}
