#![allow(dead_code)]
//! simcheck — deterministic simulation with fault injection for oxidizePdf.
//!
//!   simcheck check <PROP> --tier quick|thorough [--seed N] [--cases N] [--jobs N]
//!   simcheck replay <file>
//!   simcheck determinism <PROP> [--cases N]
//!   (internal) worker | exec-case | gen-case

#[path = "m/alloc.rs"]
mod alloc;
#[path = "m/c22.rs"]
mod c22;
#[path = "m/c29.rs"]
mod c29;
mod c17;
mod c19;
mod c20;
mod gen;
mod c01;
mod c02;
mod c03;
mod c04;
mod c05;
mod damage;
mod disk;
mod paint;
mod refpdf;
mod simdisk;
mod synth;
mod trace;
mod view;
#[path = "m/common.rs"]
mod common;
#[path = "m/runner.rs"]
mod runner;
#[path = "m/sched.rs"]
mod sched;
#[path = "m/simseam.rs"]
mod simseam;

use common::*;
use runner::*;

#[global_allocator]
static GLOBAL: alloc::Tracking = alloc::Tracking;

fn props() -> Vec<Box<dyn Property>> {
    vec![Box::new(c01::C01), Box::new(c02::C02), Box::new(c03::C03), Box::new(c04::C04), Box::new(c05::C05), Box::new(c17::C17), Box::new(c19::C19), Box::new(c20::C20), Box::new(c22::C22), Box::new(c29::C29)]
}

fn find(id: &str) -> Option<Box<dyn Property>> {
    props().into_iter().find(|p| p.id() == id)
}

fn arg_val(args: &[String], name: &str) -> Option<String> {
    args.iter().position(|a| a == name).and_then(|i| args.get(i + 1).cloned())
}

fn main() {
    let args: Vec<String> = std::env::args().collect();
    if args.len() < 2 {
        eprintln!("usage: simcheck check <PROP> --tier quick|thorough | replay <file> | determinism <PROP>");
        std::process::exit(2);
    }
    let tier = arg_val(&args, "--tier")
        .or_else(|| std::env::var("VERIF_TIER").ok())
        .and_then(|s| Tier::parse(&s))
        .unwrap_or(Tier::Quick);
    let seed = arg_val(&args, "--seed")
        .or_else(|| std::env::var("VERIF_SEED").ok())
        .and_then(|s| s.trim().parse::<u64>().ok())
        .unwrap_or(DEFAULT_SEED);
    let code = match args[1].as_str() {
        "check" => {
            let p = find(&args[2]).unwrap_or_else(|| {
                eprintln!("unknown property {}", args[2]);
                std::process::exit(2)
            });
            let jobs = arg_val(&args, "--jobs").and_then(|s| s.parse().ok()).unwrap_or(16);
            let cases = arg_val(&args, "--cases").and_then(|s| s.parse().ok());
            check_main(&*p, CheckArgs { tier, root_seed: seed, cases, jobs, write_evidence: !args.iter().any(|a| a == "--no-evidence") })
        }
        "worker" => {
            let p = find(&args[2]).expect("prop");
            let sh = arg_val(&args, "--shard").unwrap_or("0/1".into());
            let mut it = sh.split('/');
            let shard: u64 = it.next().unwrap().parse().unwrap();
            let nshards: u64 = it.next().unwrap().parse().unwrap();
            worker_main(
                &*p,
                WorkerArgs {
                    root_seed: seed,
                    tier,
                    shard,
                    nshards,
                    from: arg_val(&args, "--from").and_then(|s| s.parse().ok()).unwrap_or(0),
                    cases: arg_val(&args, "--cases").and_then(|s| s.parse().ok()).unwrap_or(0),
                    emit_logs: args.iter().any(|a| a == "--emit-logs"),
                },
            )
        }
        "exec-case" => {
            let p = find(&args[2]).expect("prop");
            exec_case_main(&*p, tier)
        }
        "gen-case" => {
            let p = find(&args[2]).expect("prop");
            let cs = match arg_val(&args, "--index").and_then(|s| s.parse::<u64>().ok()) {
                Some(i) => case_seed(seed, p.id(), i),
                None => arg_val(&args, "--case-seed").and_then(|s| s.parse().ok()).unwrap_or(0),
            };
            gen_case_main(&*p, tier, cs)
        }
        "replay" => {
            let path = std::path::PathBuf::from(&args[2]);
            let s = std::fs::read_to_string(&path).unwrap_or_default();
            let j: serde_json::Value = serde_json::from_str(&s).unwrap_or(serde_json::Value::Null);
            match j["property"].as_str().and_then(find) {
                Some(p) => replay_main(&*p, &path),
                None => {
                    eprintln!("replay file names no known property");
                    2
                }
            }
        }
        "determinism" => {
            let p = find(&args[2]).expect("prop");
            let cases = arg_val(&args, "--cases").and_then(|s| s.parse().ok()).unwrap_or(400);
            determinism_main(&*p, tier, seed, cases)
        }
        other => {
            eprintln!("unknown command {}", other);
            2
        }
    };
    c22::cleanup_scratch();
    std::process::exit(code);
}
