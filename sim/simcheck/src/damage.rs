//! Stored-image fault catalogue for the cross-reference section (C19; also the C04 recovery variant).
//! Every damage is explicit and replayable; `apply` reports whether it actually changed a byte.

use crate::common::*;
use serde::{Deserialize, Serialize};

#[derive(Clone, Debug, Serialize, Deserialize, PartialEq)]
pub enum Damage {
    /// D1 shift every in-use offset of the last xref table by delta
    ShiftAllOffsets(i64),
    /// D2 shift one in-use entry's offset
    ShiftOneOffset { entry: usize, delta: i64 },
    /// D3 corrupt one entry: 0 non-digits in the offset, 1 bad in-use flag, 2 short line, 3 generation garbage
    CorruptEntry { entry: usize, how: u8 },
    /// D4 overwrite the whole table body (subsection headers and entries) with zero bytes / spaces
    ZeroTableBody { with: u8 },
    /// D5 delete the table (from `xref` up to `trailer`)
    DeleteTable,
    /// D6 startxref keyword: 0 delete keyword+value, 1 garble keyword, 2 delete keyword only
    StartxrefKeyword(u8),
    /// D7 startxref value: 0 zero, 1 file length, 2 beyond EOF, 3 middle of an object, 4 given value
    StartxrefValue { mode: u8, value: u64 },
    /// D8 truncate the file right after the last `endobj`
    TruncateAfterLastEndobj,
    /// D9 trailer dictionary: 0 delete `trailer`+dict, 1 garble the keyword, 2 delete /Root entry, 3 garble dict delimiters
    Trailer(u8),
    /// D10 swap the offsets of two in-use entries
    SwapEntries { a: usize, b: usize },
    /// D11 wrong subsection header
    Subsection { start_delta: i64, count_delta: i64 },
    /// D12 flip one bit inside the xref section (offset relative to the `xref` keyword)
    BitFlip { rel: usize, bit: u8 },
    /// every `startxref` keyword in the file is garbled (forces the header scan on multi-revision files)
    GarbleAllStartxref,
    /// every `xref` table keyword at a line start is garbled
    GarbleAllXrefKeywords,
}

#[derive(Debug, Clone)]
pub struct XrefLoc {
    pub startxref_kw: usize,
    pub value: (usize, usize),
    pub xref_kw: usize,
    /// (line start, line end exclusive of EOL, is in-use)
    pub entries: Vec<(usize, usize, bool)>,
    pub subsection_line: (usize, usize),
    pub trailer_kw: usize,
    pub dict: (usize, usize),
}

fn rfind(h: &[u8], n: &[u8]) -> Option<usize> {
    if n.is_empty() || h.len() < n.len() {
        return None;
    }
    (0..=h.len() - n.len()).rev().find(|&i| &h[i..i + n.len()] == n)
}

fn find_from(h: &[u8], n: &[u8], from: usize) -> Option<usize> {
    if from > h.len() || h.len() - from < n.len() {
        return None;
    }
    (from..=h.len() - n.len()).find(|&i| &h[i..i + n.len()] == n)
}

/// Locate the last classic cross-reference table of an undamaged file.
pub fn locate(img: &[u8]) -> Option<XrefLoc> {
    let sx = rfind(img, b"startxref")?;
    let mut p = sx + 9;
    while p < img.len() && (img[p] == b'\n' || img[p] == b'\r' || img[p] == b' ') {
        p += 1;
    }
    let vs = p;
    while p < img.len() && img[p].is_ascii_digit() {
        p += 1;
    }
    let ve = p;
    let off: usize = std::str::from_utf8(&img[vs..ve]).ok()?.parse().ok()?;
    if off + 4 > img.len() || &img[off..off + 4] != b"xref" {
        return None;
    }
    let mut q = off + 4;
    let skip_eol = |q: &mut usize| {
        while *q < img.len() && (img[*q] == b'\n' || img[*q] == b'\r') {
            *q += 1;
        }
    };
    skip_eol(&mut q);
    let mut entries = vec![];
    let mut subsection_line = (0, 0);
    let trailer_kw;
    loop {
        if q + 7 <= img.len() && &img[q..q + 7] == b"trailer" {
            trailer_kw = q;
            break;
        }
        let ls = q;
        while q < img.len() && img[q] != b'\n' && img[q] != b'\r' {
            q += 1;
        }
        let line = &img[ls..q];
        let txt = std::str::from_utf8(line).ok()?;
        let parts: Vec<&str> = txt.split_whitespace().collect();
        if parts.len() == 2 {
            if subsection_line == (0, 0) {
                subsection_line = (ls, q);
            }
        } else if parts.len() == 3 {
            entries.push((ls, q, parts[2] == "n"));
        } else {
            return None;
        }
        skip_eol(&mut q);
        if q >= img.len() {
            return None;
        }
    }
    let ds = find_from(img, b"<<", trailer_kw)?;
    let de = find_from(img, b">>", ds)? + 2;
    Some(XrefLoc { startxref_kw: sx, value: (vs, ve), xref_kw: off, entries, subsection_line, trailer_kw, dict: (ds, de) })
}

fn entry_offset(img: &[u8], e: (usize, usize, bool)) -> Option<u64> {
    std::str::from_utf8(&img[e.0..e.0 + 10]).ok()?.parse().ok()
}

fn set_entry_offset(img: &mut [u8], e: (usize, usize, bool), v: i128) {
    let v = v.clamp(0, 9_999_999_999) as u64;
    let s = format!("{:010}", v);
    img[e.0..e.0 + 10].copy_from_slice(s.as_bytes());
}

fn in_use(loc: &XrefLoc) -> Vec<(usize, usize, bool)> {
    loc.entries.iter().copied().filter(|e| e.2 && e.1 - e.0 >= 18).collect()
}

/// Apply one damage; returns true when the image changed.
pub fn apply(img: &mut Vec<u8>, d: &Damage) -> bool {
    let before = fnv1a(img);
    match d {
        Damage::GarbleAllStartxref => {
            let mut from = 0;
            while let Some(p) = find_from(img, b"startxref", from) {
                img[p..p + 9].copy_from_slice(b"stXrtxreZ");
                from = p + 9;
            }
        }
        Damage::GarbleAllXrefKeywords => {
            let mut from = 0;
            while let Some(p) = find_from(img, b"xref", from) {
                let line_start = p == 0 || img[p - 1] == b'\n' || img[p - 1] == b'\r';
                if line_start {
                    img[p..p + 4].copy_from_slice(b"xZZf");
                }
                from = p + 4;
            }
        }
        Damage::TruncateAfterLastEndobj => {
            if let Some(p) = rfind(img, b"endobj") {
                img.truncate(p + 6);
                img.push(b'\n');
            }
        }
        _ => {
            let loc = match locate(img) {
                Some(l) => l,
                None => return false,
            };
            let used = in_use(&loc);
            match d {
                Damage::ShiftAllOffsets(delta) => {
                    for e in &used {
                        if let Some(o) = entry_offset(img, *e) {
                            set_entry_offset(img, *e, o as i128 + *delta as i128);
                        }
                    }
                }
                Damage::ShiftOneOffset { entry, delta } => {
                    if !used.is_empty() {
                        let e = used[entry % used.len()];
                        if let Some(o) = entry_offset(img, e) {
                            set_entry_offset(img, e, o as i128 + *delta as i128);
                        }
                    }
                }
                Damage::CorruptEntry { entry, how } => {
                    if !used.is_empty() {
                        let e = used[entry % used.len()];
                        match how % 4 {
                            0 => img[e.0 + 3..e.0 + 7].copy_from_slice(b"abcd"),
                            1 => img[e.0 + 17] = b'x',
                            2 => {
                                img.drain(e.0 + 5..e.0 + 12);
                            }
                            _ => img[e.0 + 11..e.0 + 16].copy_from_slice(b"#####"),
                        }
                    }
                }
                Damage::ZeroTableBody { with } => {
                    let (s, e) = (loc.subsection_line.0, loc.trailer_kw);
                    for b in &mut img[s..e] {
                        if *b != b'\n' && *b != b'\r' {
                            *b = *with;
                        }
                    }
                }
                Damage::DeleteTable => {
                    img.drain(loc.xref_kw..loc.trailer_kw);
                }
                Damage::StartxrefKeyword(m) => match m % 3 {
                    0 => {
                        img.drain(loc.startxref_kw..loc.value.1);
                    }
                    1 => img[loc.startxref_kw..loc.startxref_kw + 9].copy_from_slice(b"startxrfe"),
                    _ => {
                        img.drain(loc.startxref_kw..loc.startxref_kw + 9);
                    }
                },
                Damage::StartxrefValue { mode, value } => {
                    let len = img.len() as u64;
                    let v = match mode % 5 {
                        0 => 0,
                        1 => len,
                        2 => len + 1 + value % 100_000,
                        3 => {
                            // middle of an object: a few bytes past some in-use offset
                            used.get((*value as usize) % used.len().max(1)).and_then(|e| entry_offset(img, *e)).unwrap_or(20) + 3
                        }
                        _ => *value % (len + 1),
                    };
                    let s = v.to_string();
                    img.splice(loc.value.0..loc.value.1, s.bytes());
                }
                Damage::Trailer(m) => match m % 4 {
                    0 => {
                        img.drain(loc.trailer_kw..loc.dict.1);
                    }
                    1 => img[loc.trailer_kw..loc.trailer_kw + 7].copy_from_slice(b"trailre"),
                    2 => {
                        if let Some(p) = find_from(img, b"/Root", loc.dict.0) {
                            if p < loc.dict.1 {
                                let mut e = p + 5;
                                while e < loc.dict.1 && img[e] != b'/' && img[e] != b'>' {
                                    e += 1;
                                }
                                img.drain(p..e);
                            }
                        }
                    }
                    _ => {
                        img[loc.dict.0] = b'(';
                        img[loc.dict.1 - 1] = b')';
                    }
                },
                Damage::SwapEntries { a, b } => {
                    if used.len() >= 2 {
                        let ea = used[a % used.len()];
                        let eb = used[(a % used.len() + 1 + b % (used.len() - 1)) % used.len()];
                        let (oa, ob) = (entry_offset(img, ea), entry_offset(img, eb));
                        if let (Some(oa), Some(ob)) = (oa, ob) {
                            set_entry_offset(img, ea, ob as i128);
                            set_entry_offset(img, eb, oa as i128);
                        }
                    }
                }
                Damage::Subsection { start_delta, count_delta } => {
                    let (s, e) = loc.subsection_line;
                    if let Ok(t) = std::str::from_utf8(&img[s..e]) {
                        let parts: Vec<i64> = t.split_whitespace().filter_map(|x| x.parse().ok()).collect();
                        if parts.len() == 2 {
                            let ns = (parts[0] + start_delta).max(0);
                            let nc = (parts[1] + count_delta).max(0);
                            let line = format!("{} {}", ns, nc);
                            img.splice(s..e, line.bytes());
                        }
                    }
                }
                Damage::BitFlip { rel, bit } => {
                    let span = loc.dict.1.saturating_sub(loc.xref_kw).max(1);
                    let p = loc.xref_kw + rel % span;
                    img[p] ^= 1 << (bit % 8);
                }
                _ => {}
            }
        }
    }
    fnv1a(img) != before
}

pub fn apply_all(img: &mut Vec<u8>, ds: &[Damage]) -> usize {
    ds.iter().filter(|d| apply(img, d)).count()
}

/// The fixed single-fault catalogue, instantiated for a file with `n_in_use` in-use entries.
pub fn catalogue(n_in_use: usize, xref_span: usize, r: &mut Rng) -> Vec<Damage> {
    let mut v = vec![];
    for d in [1i64, -1, 2, 7, -7, 100, -100, 100_000] {
        v.push(Damage::ShiftAllOffsets(d));
    }
    for e in 0..n_in_use.min(12) {
        for d in [1i64, -3, 1000] {
            v.push(Damage::ShiftOneOffset { entry: e, delta: d });
        }
        v.push(Damage::CorruptEntry { entry: e, how: (e % 4) as u8 });
    }
    for how in 0..4 {
        v.push(Damage::CorruptEntry { entry: r.usize_below(n_in_use.max(1)), how });
    }
    v.push(Damage::ZeroTableBody { with: b'0' });
    v.push(Damage::ZeroTableBody { with: b' ' });
    v.push(Damage::ZeroTableBody { with: 0 });
    v.push(Damage::DeleteTable);
    for m in 0..3 {
        v.push(Damage::StartxrefKeyword(m));
    }
    for m in 0..4 {
        v.push(Damage::StartxrefValue { mode: m, value: r.next_u64() % 1000 });
    }
    v.push(Damage::StartxrefValue { mode: 4, value: r.next_u64() });
    v.push(Damage::TruncateAfterLastEndobj);
    for m in 0..4 {
        v.push(Damage::Trailer(m));
    }
    for _ in 0..3 {
        v.push(Damage::SwapEntries { a: r.usize_below(n_in_use.max(1)), b: r.usize_below(n_in_use.max(1)) });
    }
    for (s, c) in [(1i64, 0i64), (0, 1), (0, -1), (5, 0), (0, 1000)] {
        v.push(Damage::Subsection { start_delta: s, count_delta: c });
    }
    for _ in 0..6 {
        v.push(Damage::BitFlip { rel: r.usize_below(xref_span.max(1)), bit: r.below(8) as u8 });
    }
    v
}

/// Damage that makes the primary parse fail on every revision so the header scan is used.
pub fn gen_recovery_forcing(r: &mut Rng) -> Vec<Damage> {
    let mut v = vec![Damage::GarbleAllStartxref];
    if r.chance(1, 2) {
        v.push(Damage::GarbleAllXrefKeywords);
    }
    v
}
