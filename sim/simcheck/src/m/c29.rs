//! C29 — the object cache behaves as a bounded LRU map.
//! Sequential histories against a reference LRU; concurrent histories under shuttle, checked for
//! linearizability (Wing–Gong search) against the same reference.

use crate::common::*;
use crate::runner::*;
use crate::sched::{self, RecScheduler, RunEnd, SchedKind, Trace};
use oxidize_pdf::memory::{LruCache, ObjectCache};
use oxidize_pdf::objects::ObjectId;
use oxidize_pdf::parser::PdfObject;
use serde::{Deserialize, Serialize};
use serde_json::{json, Value};
use std::sync::atomic::{AtomicU64, Ordering};
use std::sync::{Arc, Mutex};

pub struct C29;

#[derive(Clone, Debug, Serialize, Deserialize, PartialEq)]
pub enum Op {
    Put(u32, i64),
    Get(u32),
    Clear,
    Len,
}

#[derive(Clone, Debug, Serialize, Deserialize)]
pub struct Case {
    /// "seq" (LruCache directly), "seq-shared" (ObjectCache, one thread), "conc"
    pub mode: String,
    pub capacity: usize,
    pub keys: u32,
    pub threads: Vec<Vec<Op>>,
    pub sched: SchedKind,
    pub sched_seed: u64,
    pub iterations: usize,
    pub trace: Option<Trace>,
}

// ------------------------------------------------------------------ reference model

#[derive(Clone, Debug, PartialEq, Eq, Hash)]
pub struct RefLru {
    cap: usize,
    /// most recently used first
    order: Vec<(u32, i64)>,
    pub evictions: u64,
}

#[derive(Clone, Debug, PartialEq)]
pub enum Res {
    Unit,
    Val(Option<i64>),
    Len(usize),
}

impl RefLru {
    pub fn new(cap: usize) -> Self {
        RefLru { cap, order: vec![], evictions: 0 }
    }
    pub fn apply(&mut self, op: &Op) -> Res {
        match op {
            Op::Get(k) => {
                if let Some(i) = self.order.iter().position(|(kk, _)| kk == k) {
                    let e = self.order.remove(i);
                    self.order.insert(0, e);
                    Res::Val(Some(e.1))
                } else {
                    Res::Val(None)
                }
            }
            Op::Put(k, v) => {
                if self.cap == 0 {
                    return Res::Unit;
                }
                if let Some(i) = self.order.iter().position(|(kk, _)| kk == k) {
                    self.order.remove(i);
                } else if self.order.len() >= self.cap {
                    self.order.pop();
                    self.evictions += 1;
                }
                self.order.insert(0, (*k, *v));
                Res::Unit
            }
            Op::Clear => {
                self.order.clear();
                Res::Unit
            }
            Op::Len => Res::Len(self.order.len()),
        }
    }
}

// ------------------------------------------------------------------ generation

fn gen_ops(r: &mut Rng, n: usize, keys: u32, tag: i64) -> Vec<Op> {
    let mut v = vec![];
    for i in 0..n {
        let k = r.below(keys as u64) as u32;
        let c = r.below(100);
        v.push(if c < 45 {
            Op::Put(k, tag * 1000 + i as i64) // unique value per write
        } else if c < 85 {
            Op::Get(k)
        } else if c < 92 {
            Op::Clear
        } else {
            Op::Len
        });
    }
    v
}

fn gen_case(cs: u64, tier: Tier) -> Case {
    let mut r = Rng::new(cs);
    let m = r.below(10);
    if m < 5 {
        let keys = 2 + r.below(4) as u32;
        let n = 4 + r.usize_below(21);
        Case {
            mode: if m < 3 { "seq".into() } else { "seq-shared".into() },
            capacity: r.usize_below(5),
            keys,
            threads: vec![gen_ops(&mut r, n, keys, 1)],
            sched: SchedKind::Random,
            sched_seed: r.next_u64(),
            iterations: 1,
            trace: None,
        }
    } else {
        let nt = 2 + r.usize_below(2);
        let keys = 2 + r.below(3) as u32;
        let mut threads = vec![];
        for t in 0..nt {
            let n = 2 + r.usize_below(3);
            threads.push(gen_ops(&mut r, n, keys, t as i64 + 1));
        }
        let sched = if r.chance(1, 3) { SchedKind::Pct(2 + r.usize_below(2)) } else { SchedKind::Random };
        Case {
            mode: "conc".into(),
            capacity: 1 + r.usize_below(3),
            keys,
            threads,
            sched,
            sched_seed: r.next_u64(),
            iterations: if tier == Tier::Quick { 150 } else { 1500 },
            trace: None,
        }
    }
}

// ------------------------------------------------------------------ sequential execution

fn exec_seq(c: &Case, out: &mut Outcome) {
    let mut model = RefLru::new(c.capacity);
    let mut real: LruCache<u32, i64> = LruCache::new(c.capacity);
    let mut h = fnv1a(b"seq");
    for (i, op) in c.threads[0].iter().enumerate() {
        let want = model.apply(op);
        let got = match op {
            Op::Put(k, v) => {
                real.put(*k, *v);
                Res::Unit
            }
            Op::Get(k) => Res::Val(real.get(k).copied()),
            Op::Clear => {
                real.clear();
                Res::Unit
            }
            Op::Len => Res::Len(real.len()),
        };
        h = fnv1a_more(h, format!("{:?}", got).as_bytes());
        if got != want {
            out.violate("seq-mismatch", format!("op #{} {:?}: cache returned {:?}, reference LRU {:?}", i, op, got, want));
            return;
        }
        if real.len() > c.capacity {
            out.violate("capacity-exceeded", format!("after op #{} {:?}: len {} > capacity {}", i, op, real.len(), c.capacity));
            return;
        }
        if real.len() != model.order.len() || real.is_empty() != model.order.is_empty() {
            out.violate("seq-mismatch", format!("after op #{} {:?}: len {} vs reference {}", i, op, real.len(), model.order.len()));
            return;
        }
        out.sim_steps += 1;
    }
    // drain: which keys survived, observed through the public API (order fixed => recency effects equal)
    for k in 0..c.keys {
        let want = model.apply(&Op::Get(k));
        let got = Res::Val(real.get(&k).copied());
        if got != want {
            out.violate("seq-mismatch", format!("final drain get({}): cache {:?}, reference {:?} (wrong entry was evicted)", k, got, want));
            return;
        }
    }
    out.nontrivial = model.evictions > 0;
    out.bump("probe.eviction_happened", (model.evictions > 0) as u64);
    out.bump("probe.capacity_zero", (c.capacity == 0) as u64);
    out.digest = h;
    out.log_digest = h;
}

// ------------------------------------------------------------------ concurrent execution

#[derive(Clone, Debug)]
struct Event {
    thread: usize,
    op: Op,
    res: Res,
    inv: u64,
    ret: u64,
}

fn obj(v: i64) -> Arc<PdfObject> {
    Arc::new(PdfObject::Integer(v))
}

fn val_of(o: Option<Arc<PdfObject>>) -> Option<i64> {
    o.map(|a| match &*a {
        PdfObject::Integer(i) => *i,
        _ => i64::MIN,
    })
}

fn do_op(cache: &ObjectCache, op: &Op, cap_seen: &AtomicU64) -> Res {
    match op {
        Op::Put(k, v) => {
            cache.put(ObjectId::new(*k, 0), obj(*v));
            Res::Unit
        }
        Op::Get(k) => Res::Val(val_of(cache.get(&ObjectId::new(*k, 0)))),
        Op::Clear => {
            cache.clear();
            Res::Unit
        }
        Op::Len => {
            let s = cache.stats();
            cap_seen.fetch_max(s.size as u64, Ordering::Relaxed);
            Res::Len(s.size)
        }
    }
}

/// Wing–Gong search: is there a total order consistent with real-time order (by event sequence
/// stamps) under which the reference LRU yields every recorded result?
fn linearizable(events: &[Event], cap: usize) -> bool {
    fn go(events: &[Event], done: u32, model: &RefLru, seen: &mut std::collections::HashSet<(u32, RefLru)>) -> bool {
        if done.count_ones() as usize == events.len() {
            return true;
        }
        if !seen.insert((done, model.clone())) {
            return false;
        }
        // earliest return among pending ops: an op invoked after that return cannot go first
        let min_ret = events.iter().enumerate().filter(|(i, _)| done & (1 << i) == 0).map(|(_, e)| e.ret).min().unwrap();
        for (i, e) in events.iter().enumerate() {
            if done & (1 << i) != 0 || e.inv > min_ret {
                continue;
            }
            let mut m = model.clone();
            if m.apply(&e.op) == e.res && go(events, done | (1 << i), &m, seen) {
                return true;
            }
        }
        false
    }
    let mut seen = std::collections::HashSet::new();
    go(events, 0, &RefLru::new(cap), &mut seen)
}

struct ConcShared {
    failure: Option<(String, String, Trace)>,
    overlapped: u64,
    traces: std::collections::HashSet<u64>,
    histories: std::collections::HashSet<u64>,
    steps: u64,
}

fn exec_conc(c: &Case, out: &mut Outcome) {
    sched::prime_shuttle();
    let sched = match &c.trace {
        Some(t) => RecScheduler::replay(t.clone()),
        None => RecScheduler::new(&c.sched, c.sched_seed, c.iterations),
    };
    let sshared = sched.shared.clone();
    let cs = Arc::new(Mutex::new(ConcShared {
        failure: None,
        overlapped: 0,
        traces: Default::default(),
        histories: Default::default(),
        steps: 0,
    }));
    let case = Arc::new(c.clone());
    let cs2 = cs.clone();
    let ss2 = sshared.clone();
    let single = c.mode == "seq-shared";
    let end = sched::run(sched, 50_000, move || {
        let cache = Arc::new(ObjectCache::new(case.capacity));
        let seq = Arc::new(AtomicU64::new(0));
        let cap_seen = Arc::new(AtomicU64::new(0));
        let log: Arc<Mutex<Vec<Event>>> = Arc::new(Mutex::new(vec![]));
        let mut hs = vec![];
        let run_thread = |t: usize, ops: Vec<Op>, cache: Arc<ObjectCache>, seq: Arc<AtomicU64>, log: Arc<Mutex<Vec<Event>>>, cap_seen: Arc<AtomicU64>| {
            for op in ops {
                let inv = seq.fetch_add(1, Ordering::SeqCst);
                let res = do_op(&cache, &op, &cap_seen);
                let ret = seq.fetch_add(1, Ordering::SeqCst);
                log.lock().unwrap().push(Event { thread: t, op, res, inv, ret });
            }
        };
        if single {
            run_thread(0, case.threads[0].clone(), cache.clone(), seq.clone(), log.clone(), cap_seen.clone());
        } else {
            for (t, ops) in case.threads.iter().enumerate() {
                let (ops, cache, seq, log, cap_seen) = (ops.clone(), cache.clone(), seq.clone(), log.clone(), cap_seen.clone());
                hs.push(shuttle::thread::spawn(move || run_thread(t, ops, cache, seq, log, cap_seen)));
            }
            for h in hs {
                let _ = h.join();
            }
        }
        let events = log.lock().unwrap().clone();
        let final_size = cache.stats().size;
        let trace = ss2.lock().unwrap().trace.clone();
        let mut g = cs2.lock().unwrap();
        g.steps += trace.tasks.len() as u64;
        g.traces.insert(trace.hash());
        let mut hh = fnv1a(b"h");
        let mut sorted = events.clone();
        sorted.sort_by_key(|e| e.inv);
        for e in &sorted {
            hh = fnv1a_more(hh, format!("{}{:?}{:?}", e.thread, e.op, e.res).as_bytes());
        }
        g.histories.insert(hh);
        let overlap = sorted.windows(2).any(|w| w[1].inv < w[0].ret && w[0].thread != w[1].thread);
        g.overlapped += overlap as u64;
        let fail = if cap_seen.load(Ordering::Relaxed) as usize > case.capacity || final_size > case.capacity {
            Some(("capacity-exceeded", format!("stats().size reached {} with capacity {}", final_size.max(cap_seen.load(Ordering::Relaxed) as usize), case.capacity)))
        } else if !linearizable(&events, case.capacity) {
            Some(("not-linearizable", format!("no linearization of history {:?} matches the reference LRU (capacity {})", sorted.iter().map(|e| format!("t{}:{:?}->{:?}@{}..{}", e.thread, e.op, e.res, e.inv, e.ret)).collect::<Vec<_>>(), case.capacity)))
        } else {
            None
        };
        if let Some((cl, d)) = fail {
            if g.failure.is_none() {
                g.failure = Some((cl.to_string(), d, trace));
                ss2.lock().unwrap().stop = true;
            }
        }
    });
    let g = cs.lock().unwrap();
    out.sim_steps += g.steps;
    out.states = g.traces.iter().copied().collect();
    out.bump("schedules_run", g.traces.len() as u64);
    out.bump("distinct_histories", g.histories.len() as u64);
    out.bump("probe.overlapping_operations", g.overlapped);
    out.nontrivial = g.overlapped > 0 || single;
    let mut h = fnv1a(serde_json::to_string(&c.threads).unwrap().as_bytes());
    h = fnv1a_more(h, &(c.capacity as u64).to_le_bytes());
    out.digest = h;
    let mut lg = 0u64;
    for t in &g.traces {
        lg ^= mix(*t, 1);
    }
    for t in &g.histories {
        lg ^= mix(*t, 2);
    }
    out.log_digest = lg;
    let mut refine = |trace: Trace, out: &mut Outcome| {
        let mut nc = c.clone();
        nc.trace = Some(trace);
        nc.iterations = 1;
        out.refined = Some(serde_json::to_value(&nc).unwrap());
    };
    match end {
        RunEnd::Completed { .. } => {
            if let Some((cl, d, tr)) = g.failure.clone() {
                out.violate(&cl, d);
                refine(tr, out);
            }
        }
        RunEnd::EnginePanic { message, trace, .. } => {
            out.violate(sched::classify_engine_panic(&message), message);
            refine(trace, out);
            out.bump("fatal", 1);
        }
        RunEnd::ReplayDiverged => {
            out.bump("replay_diverged", 1);
        }
    }
}

impl Property for C29 {
    fn id(&self) -> &'static str {
        "C29"
    }
    fn engine(&self) -> Engine {
        Engine::Sched
    }
    fn cases(&self, tier: Tier) -> u64 {
        match tier {
            Tier::Quick => 40_000,
            Tier::Thorough => 400_000,
        }
    }
    fn gen(&self, cs: u64, tier: Tier, _ctx: &ExecCtx) -> Value {
        serde_json::to_value(gen_case(cs, tier)).unwrap()
    }
    fn exec(&self, case: &Value, _ctx: &ExecCtx) -> Outcome {
        let mut out = Outcome::default();
        let c: Case = match serde_json::from_value(case.clone()) {
            Ok(c) => c,
            Err(e) => {
                out.bump("bad_case", 1);
                out.violate("harness-bad-case", e.to_string());
                return out;
            }
        };
        out.bump(&format!("mode.{}", c.mode), 1);
        if c.mode == "seq" {
            let r = std::panic::catch_unwind(std::panic::AssertUnwindSafe(|| {
                let mut o = Outcome::default();
                exec_seq(&c, &mut o);
                o
            }));
            match r {
                Ok(o) => {
                    let counters = std::mem::take(&mut out.counters);
                    out = o;
                    for (k, v) in counters {
                        out.bump(&k, v);
                    }
                }
                Err(_) => out.violate("panic", take_last_panic()),
            }
        } else {
            exec_conc(&c, &mut out);
        }
        out
    }
    fn shrink(&self, case: &Value) -> Vec<Value> {
        let c: Case = match serde_json::from_value(case.clone()) {
            Ok(c) => c,
            Err(_) => return vec![],
        };
        let mut v = vec![];
        let searching = |mut n: Case| {
            if n.mode == "conc" {
                n.trace = None;
                n.iterations = 3000;
            }
            serde_json::to_value(&n).unwrap()
        };
        if c.threads.len() > 2 {
            for t in 0..c.threads.len() {
                let mut n = c.clone();
                n.threads.remove(t);
                v.push(searching(n));
            }
        }
        for t in 0..c.threads.len() {
            for i in 0..c.threads[t].len() {
                if c.threads[t].len() == 1 && c.mode == "conc" {
                    continue;
                }
                let mut n = c.clone();
                n.threads[t].remove(i);
                v.push(searching(n));
            }
        }
        v
    }
    fn describe(&self) -> Describe {
        Describe {
            rule: "case = seeded operation history over keys 0..5, capacity 0..4: (a) 'seq' 4-24 ops on LruCache vs a reference LRU compared op by op plus a final drain, (b) 'seq-shared' same through ObjectCache on one shuttle task, (c) 'conc' 2-3 shuttle threads x 2-4 ops (unique value per write) on one ObjectCache, each of N seeded schedules (random or PCT) checked for linearizability against the reference LRU by Wing-Gong search over invoke/return event-sequence stamps. non-trivial = seq history with >=1 eviction / conc case where operations of different threads overlapped in at least one schedule; distinct = digest of (ops, capacity, results). distinct_states_or_interleavings = distinct recorded schedules.".into(),
            assumptions: vec![
                "shuttle's RwLock/atomics model sequentially consistent memory; weak-memory reorderings are not explored".into(),
                "reference LRU (40 lines, src/c29.rs RefLru) is the specification of 'least recently used'".into(),
            ],
            real_components: vec!["memory::cache::LruCache".into(), "memory::cache::ObjectCache (RwLock from verif_shim -> shuttle)".into()],
            stub_components: vec!["std::sync::RwLock replaced by shuttle's scheduler-controlled RwLock".into()],
            fault_kinds: vec!["schedule: seeded random".into(), "schedule: PCT depth 2-3".into()],
            level: "exploration",
            exhaustive_note: Some("the property's quantifier asks for exhaustive enumeration of short histories; this check samples them by seed (enumeration would be model checking, outside this technique)".into()),
        }
    }
}

#[allow(dead_code)]
pub fn unused(_: Value) -> Value {
    json!(null)
}
