//! Process model, case threads, aggregation, minimisation, replay, evidence.

use crate::alloc;
use crate::common::*;
use crate::simseam::{ProcEnv, SimSeam};
use serde_json::{json, Value};
use std::collections::{BTreeMap, BTreeSet, HashSet};
use std::io::{BufRead, BufReader, Read, Write};
use std::os::unix::thread::JoinHandleExt;
use std::process::{Command, Stdio};
use std::sync::atomic::{AtomicBool, Ordering};
use std::sync::{mpsc, Arc, Mutex};

#[derive(Clone, Copy, PartialEq, Eq, Debug)]
pub enum Engine {
    /// needs libsim.so preloaded (entropy / clock / pid seams)
    Disk,
    /// shuttle-controlled scheduling; no preload
    Sched,
}

pub struct ExecCtx {
    pub seam: Option<SimSeam>,
    pub tier: Tier,
}

pub struct Describe {
    pub rule: String,
    pub assumptions: Vec<String>,
    pub real_components: Vec<String>,
    pub stub_components: Vec<String>,
    pub fault_kinds: Vec<String>,
    pub level: &'static str,
    pub exhaustive_note: Option<String>,
}

pub trait Property: Sync + Send {
    fn id(&self) -> &'static str;
    fn engine(&self) -> Engine;
    fn cases(&self, tier: Tier) -> u64;
    /// Explicit, self-contained, replayable case derived from nothing but `case_seed`.
    fn gen(&self, case_seed: u64, tier: Tier, ctx: &ExecCtx) -> Value;
    fn exec(&self, case: &Value, ctx: &ExecCtx) -> Outcome;
    /// Candidate simplifications of a failing case, most aggressive first.
    fn shrink(&self, _case: &Value) -> Vec<Value> {
        vec![]
    }
    /// Short form of a case for the evidence samples.
    fn sample(&self, case: &Value) -> Value {
        truncate_json(case, 400)
    }
    fn describe(&self) -> Describe;
}

pub fn truncate_json(v: &Value, max_str: usize) -> Value {
    match v {
        Value::String(s) if s.len() > max_str => {
            Value::String(format!("{}…(+{} chars)", &s[..max_str.min(s.len())], s.len() - max_str))
        }
        Value::Array(a) => {
            let mut out: Vec<Value> = a.iter().take(24).map(|x| truncate_json(x, max_str)).collect();
            if a.len() > 24 {
                out.push(Value::String(format!("…(+{} items)", a.len() - 24)));
            }
            Value::Array(out)
        }
        Value::Object(o) => Value::Object(o.iter().map(|(k, x)| (k.clone(), truncate_json(x, max_str))).collect()),
        _ => v.clone(),
    }
}

// ---------------------------------------------------------------------------------------------
// Case threads (fresh thread per case; CPU watchdog; allocator accounting)

static LAST_PANIC: Mutex<String> = Mutex::new(String::new());
static QUIET_PANICS: AtomicBool = AtomicBool::new(true);

pub struct JobPanic;

pub fn install_panic_hook() {
    std::panic::set_hook(Box::new(|info| {
        if info.payload().downcast_ref::<JobPanic>().is_some() {
            return; // intended panic of a simulated job body
        }
        let msg = if let Some(s) = info.payload().downcast_ref::<&str>() {
            s.to_string()
        } else if let Some(s) = info.payload().downcast_ref::<String>() {
            s.clone()
        } else {
            "<non-string panic payload>".to_string()
        };
        let loc = info
            .location()
            .map(|l| format!("{}:{}", l.file(), l.line()))
            .unwrap_or_default();
        if let Ok(mut g) = LAST_PANIC.lock() {
            *g = format!("{} @ {}", msg, loc);
        }
        if !QUIET_PANICS.load(Ordering::Relaxed) {
            eprintln!("panic: {} @ {}", msg, loc);
        }
    }));
}

pub fn set_quiet_panics(q: bool) {
    QUIET_PANICS.store(q, Ordering::Relaxed);
}

pub fn take_last_panic() -> String {
    LAST_PANIC.lock().map(|mut g| std::mem::take(&mut *g)).unwrap_or_default()
}

#[derive(Clone, Copy, Debug, Default)]
pub struct ThreadStats {
    pub cpu_ms: u64,
    pub alloc_peak: usize,
    pub alloc_largest: usize,
    pub alloc_count: usize,
    pub clock_calls: u64,
    pub clock_jumps: u64,
    pub entropy_bytes: u64,
    pub sim_elapsed_ns: i64,
}

pub enum ThreadResult<T> {
    Done(T, ThreadStats),
    Panicked(String, ThreadStats),
    /// thread is still running and cannot be stopped: the process must exit after reporting
    Hung(ThreadStats),
}

fn thread_cpu_ms(pt: libc::pthread_t) -> u64 {
    unsafe {
        let mut cid: libc::clockid_t = 0;
        if libc::pthread_getcpuclockid(pt, &mut cid) != 0 {
            return 0;
        }
        let mut ts = libc::timespec { tv_sec: 0, tv_nsec: 0 };
        if libc::clock_gettime(cid, &mut ts) != 0 {
            return 0;
        }
        (ts.tv_sec as u64) * 1000 + (ts.tv_nsec as u64) / 1_000_000
    }
}

/// Run `f` on a fresh 8 MiB-stack thread under process environment `env` (fresh thread => std's
/// per-thread hash keys and rand's thread RNG are re-drawn from the just-reseeded entropy stream,
/// so the result is a pure function of `env` and `f`).
pub fn run_case_thread<T: Send + 'static>(
    seam: Option<&SimSeam>,
    env: &ProcEnv,
    cpu_limit_ms: u64,
    f: impl FnOnce() -> T + Send + 'static,
) -> ThreadResult<T> {
    if let Some(s) = seam {
        s.install(env);
    }
    let baseline = alloc::begin_case();
    let h = std::thread::Builder::new()
        .stack_size(8 << 20)
        .spawn(f)
        .expect("spawn case thread");
    let pt = h.as_pthread_t();
    let mut spins: u32 = 0;
    let mut hung = false;
    let mut cpu = 0;
    while !h.is_finished() {
        spins += 1;
        let us = if spins < 50 { 20 } else if spins < 500 { 200 } else { 5_000 };
        unsafe { libc::usleep(us) };
        if spins > 500 && spins % 20 == 0 {
            cpu = thread_cpu_ms(pt);
            if cpu > cpu_limit_ms {
                hung = true;
                break;
            }
        }
    }
    let mk = |cpu_ms: u64, a: alloc::AllocStats| ThreadStats {
        cpu_ms,
        alloc_peak: a.peak_over_baseline,
        alloc_largest: a.largest,
        alloc_count: a.count,
        clock_calls: seam.map(|s| s.clock_calls()).unwrap_or(0),
        clock_jumps: seam.map(|s| s.clock_jumps()).unwrap_or(0),
        entropy_bytes: seam.map(|s| s.entropy_bytes()).unwrap_or(0),
        sim_elapsed_ns: seam.map(|s| s.clock_elapsed_ns()).unwrap_or(0),
    };
    if hung {
        let a = alloc::end_case(baseline);
        let st = mk(cpu, a);
        if let Some(s) = seam {
            s.disable();
        }
        std::mem::forget(h);
        return ThreadResult::Hung(st);
    }
    let r = h.join();
    let a = alloc::end_case(baseline);
    let st = mk(0, a);
    if let Some(s) = seam {
        s.disable();
    }
    match r {
        Ok(v) => ThreadResult::Done(v, st),
        Err(_) => ThreadResult::Panicked(take_last_panic(), st),
    }
}

// ---------------------------------------------------------------------------------------------
// Aggregation

#[derive(Default)]
pub struct Agg {
    pub evaluations: u64,
    pub nontrivial: u64,
    pub digests: HashSet<u64>,
    pub states: HashSet<u64>,
    pub counters: BTreeMap<String, u64>,
    pub sim_steps: u64,
    pub sim_ns: u64,
    pub log_digest: u64,
}

impl Agg {
    fn add(&mut self, o: &Outcome) {
        self.evaluations += 1;
        if o.nontrivial {
            self.nontrivial += 1;
            self.digests.insert(o.digest);
        }
        for s in &o.states {
            self.states.insert(*s);
        }
        for (k, v) in &o.counters {
            let e = self.counters.entry(k.clone()).or_insert(0);
            if k.starts_with("max.") {
                *e = (*e).max(*v);
            } else {
                *e += v;
            }
        }
        self.sim_steps += o.sim_steps;
        self.sim_ns += o.sim_ns;
        self.log_digest ^= mix(o.log_digest, o.digest);
    }
    fn to_json(&self) -> Value {
        json!({
            "evaluations": self.evaluations,
            "nontrivial": self.nontrivial,
            "digests": self.digests.iter().collect::<Vec<_>>(),
            "states": self.states.iter().collect::<Vec<_>>(),
            "counters": self.counters,
            "sim_steps": self.sim_steps,
            "sim_ns": self.sim_ns,
            "log_digest": self.log_digest,
        })
    }
    fn merge_json(&mut self, v: &Value) {
        self.evaluations += v["evaluations"].as_u64().unwrap_or(0);
        self.nontrivial += v["nontrivial"].as_u64().unwrap_or(0);
        for d in v["digests"].as_array().into_iter().flatten() {
            if let Some(x) = d.as_u64() {
                self.digests.insert(x);
            }
        }
        for d in v["states"].as_array().into_iter().flatten() {
            if let Some(x) = d.as_u64() {
                self.states.insert(x);
            }
        }
        if let Some(o) = v["counters"].as_object() {
            for (k, x) in o {
                let e = self.counters.entry(k.clone()).or_insert(0);
                let x = x.as_u64().unwrap_or(0);
                if k.starts_with("max.") {
                    *e = (*e).max(x);
                } else {
                    *e += x;
                }
            }
        }
        self.sim_steps += v["sim_steps"].as_u64().unwrap_or(0);
        self.sim_ns += v["sim_ns"].as_u64().unwrap_or(0);
        self.log_digest ^= v["log_digest"].as_u64().unwrap_or(0);
    }
}

// ---------------------------------------------------------------------------------------------
// Worker mode

pub struct WorkerArgs {
    pub root_seed: u64,
    pub tier: Tier,
    pub shard: u64,
    pub nshards: u64,
    pub from: u64,
    pub cases: u64,
    /// print per-case log digests (determinism self-test)
    pub emit_logs: bool,
}

fn out_line(s: &str) {
    let so = std::io::stdout();
    let mut l = so.lock();
    let _ = l.write_all(s.as_bytes());
    let _ = l.write_all(b"\n");
    let _ = l.flush();
}

pub fn make_ctx(p: &dyn Property, tier: Tier) -> Result<ExecCtx, String> {
    let seam = SimSeam::load();
    if p.engine() == Engine::Disk {
        let s = seam.ok_or_else(|| "libsim.so is not preloaded into this worker (S4–S6 missing)".to_string())?;
        crate::simseam::selftest(&s)?;
    }
    Ok(ExecCtx { seam, tier })
}

pub fn worker_main(p: &dyn Property, a: WorkerArgs) -> i32 {
    install_panic_hook();
    let ctx = match make_ctx(p, a.tier) {
        Ok(c) => c,
        Err(e) => {
            out_line(&format!("H {}", json!(e)));
            return 2;
        }
    };
    let mut agg = Agg::default();
    let mut samples_sent = 0;
    let mut i = a.shard + a.from * a.nshards;
    let mut since_flush = 0;
    while i < a.cases {
        out_line(&format!("S {}", i));
        let cs = case_seed(a.root_seed, p.id(), i);
        let case = p.gen(cs, a.tier, &ctx);
        let out = p.exec(&case, &ctx);
        agg.add(&out);
        if a.emit_logs {
            out_line(&format!("L {} {} {}", i, out.log_digest, out.digest));
        }
        if samples_sent < 2 && out.nontrivial {
            samples_sent += 1;
            out_line(&format!("P {}", json!({"index": i, "case_seed": cs, "case": p.sample(&case)})));
        }
        let fatal = out.counters.get("fatal").copied().unwrap_or(0) > 0;
        if out.violation.is_some() {
            out_line(&format!(
                "V {}",
                json!({"index": i, "case_seed": cs, "case": out.refined.as_ref().unwrap_or(&case), "violation": out.violation})
            ));
        }
        for (v, c) in &out.more {
            out_line(&format!("V {}", json!({"index": i, "case_seed": cs, "case": c, "violation": v})));
        }
        out_line(&format!("E {}", i));
        since_flush += 1;
        if since_flush >= 100 || fatal || out.violation.is_some() {
            out_line(&format!("A {}", agg.to_json()));
            agg = Agg::default();
            since_flush = 0;
        }
        if fatal {
            // a case thread is stuck, or shuttle's state is no longer trustworthy: start afresh
            crate::c22::cleanup_scratch();
            unsafe { libc::_exit(3) };
        }
        i += a.nshards;
    }
    out_line(&format!("A {}", agg.to_json()));
    out_line("Z");
    0
}

// ---------------------------------------------------------------------------------------------
// Isolated execution of one explicit case (used by replay and by the minimiser)

pub enum Iso {
    Outcome(Outcome),
    Died { class: String, detail: String },
    Harness(String),
}

impl Iso {
    pub fn class(&self) -> Option<String> {
        match self {
            Iso::Outcome(o) => o.violation.as_ref().map(|v| v.class.clone()),
            Iso::Died { class, .. } => Some(class.clone()),
            Iso::Harness(_) => None,
        }
    }
    /// does the run exhibit a violation of this class (as its first or as a further violation)?
    pub fn has_class(&self, class: &str) -> bool {
        match self {
            Iso::Outcome(o) => o.violation.as_ref().map(|v| v.class == class).unwrap_or(false) || o.more.iter().any(|(v, _)| v.class == class),
            Iso::Died { class: c, .. } => c == class,
            Iso::Harness(_) => false,
        }
    }
    pub fn detail_of(&self, class: &str) -> String {
        match self {
            Iso::Outcome(o) => {
                if let Some(v) = o.violation.as_ref().filter(|v| v.class == class) {
                    return v.detail.clone();
                }
                o.more.iter().find(|(v, _)| v.class == class).map(|(v, _)| v.detail.clone()).unwrap_or_default()
            }
            other => other.detail(),
        }
    }
    pub fn detail(&self) -> String {
        match self {
            Iso::Outcome(o) => o.violation.as_ref().map(|v| v.detail.clone()).unwrap_or_default(),
            Iso::Died { detail, .. } => detail.clone(),
            Iso::Harness(e) => e.clone(),
        }
    }
}

fn libsim_path() -> String {
    verif_root().join("sim/libsim/libsim.so").to_string_lossy().to_string()
}

fn child_cmd(p: &dyn Property) -> Command {
    let exe = std::env::current_exe().expect("current_exe");
    let mut c = Command::new(exe);
    if p.engine() == Engine::Disk {
        c.env("LD_PRELOAD", libsim_path());
    }
    c.env("VERIF_ROOT", verif_root());
    c
}

fn classify_death(status: std::process::ExitStatus, stdout: &str) -> (String, String) {
    use std::os::unix::process::ExitStatusExt;
    let xline = stdout.lines().rev().find(|l| l.starts_with("X ")).map(|s| s.to_string());
    if let Some(x) = &xline {
        if x.contains("stack_overflow") {
            return ("stack-overflow".into(), "thread overflowed its stack (the runtime aborted the process)".into());
        }
        if x.contains("alloc_refused") {
            let kind = x.split_whitespace().nth(2).unwrap_or("?").to_string();
            return (
                format!("alloc-refused-{}", kind),
                format!("process aborted after allocation refusal: {}", x),
            );
        }
    }
    match status.signal() {
        Some(11) | Some(7) => ("crash-sigsegv".into(), "process died with SIGSEGV/SIGBUS (stack overflow?)".into()),
        Some(6) => ("abort".into(), "process aborted (SIGABRT)".into()),
        Some(s) => (format!("crash-signal-{}", s), format!("process died with signal {}", s)),
        None => (
            format!("exit-{}", status.code().unwrap_or(-1)),
            format!("process exited with status {:?}", status.code()),
        ),
    }
}

pub fn exec_isolated(p: &dyn Property, case: &Value, tier: Tier) -> Iso {
    let mut cmd = child_cmd(p);
    cmd.arg("exec-case").arg(p.id()).arg("--tier").arg(tier.name());
    cmd.stdin(Stdio::piped()).stdout(Stdio::piped()).stderr(Stdio::piped());
    let mut ch = match cmd.spawn() {
        Ok(c) => c,
        Err(e) => return Iso::Harness(format!("spawn: {}", e)),
    };
    // stderr is drained on its own thread (only its tail matters: the runtime's last words)
    let se = ch.stderr.take().unwrap();
    let err_thread = std::thread::spawn(move || {
        let mut buf = Vec::new();
        let _ = std::io::Read::read_to_end(&mut { se }, &mut buf);
        let tail = if buf.len() > 4096 { buf[buf.len() - 4096..].to_vec() } else { buf };
        String::from_utf8_lossy(&tail).to_string()
    });
    {
        let mut si = ch.stdin.take().unwrap();
        let _ = si.write_all(case.to_string().as_bytes());
    }
    let mut out = String::new();
    let _ = ch.stdout.take().unwrap().read_to_string(&mut out);
    let errs = err_thread.join().unwrap_or_default();
    if errs.contains("has overflowed its stack") {
        out.push_str("\nX stack_overflow\n");
    }
    let st = match ch.wait() {
        Ok(s) => s,
        Err(e) => return Iso::Harness(format!("wait: {}", e)),
    };
    if let Some(l) = out.lines().find(|l| l.starts_with("O ")) {
        match serde_json::from_str::<Outcome>(&l[2..]) {
            Ok(o) => return Iso::Outcome(o),
            Err(e) => return Iso::Harness(format!("bad outcome json: {}", e)),
        }
    }
    if let Some(l) = out.lines().find(|l| l.starts_with("H ")) {
        return Iso::Harness(l[2..].to_string());
    }
    let (class, detail) = classify_death(st, &out);
    Iso::Died { class, detail }
}

pub fn exec_case_main(p: &dyn Property, tier: Tier) -> i32 {
    install_panic_hook();
    let mut s = String::new();
    let _ = std::io::stdin().read_to_string(&mut s);
    let case: Value = match serde_json::from_str(&s) {
        Ok(v) => v,
        Err(e) => {
            out_line(&format!("H {}", json!(format!("bad case json: {}", e))));
            return 2;
        }
    };
    let ctx = match make_ctx(p, tier) {
        Ok(c) => c,
        Err(e) => {
            out_line(&format!("H {}", json!(e)));
            return 2;
        }
    };
    let out = p.exec(&case, &ctx);
    out_line(&format!("O {}", serde_json::to_string(&out).unwrap()));
    crate::c22::cleanup_scratch();
    unsafe { libc::_exit(0) }
}

// ---------------------------------------------------------------------------------------------
// Known findings

#[derive(Clone, Debug)]
pub struct KnownFinding {
    pub property: String,
    pub class: String,
    pub what: String,
}

pub fn load_known_findings() -> Vec<KnownFinding> {
    let path = verif_root().join("known_findings.jsonl");
    let mut v = vec![];
    if let Ok(s) = std::fs::read_to_string(path) {
        for l in s.lines() {
            let l = l.trim();
            if l.is_empty() || l.starts_with('#') || l.starts_with("fixed:") {
                continue; // `fixed:` entries suppress nothing
            }
            if let Ok(j) = serde_json::from_str::<Value>(l) {
                if j["status"].as_str() == Some("fixed") {
                    continue;
                }
                v.push(KnownFinding {
                    property: j["property"].as_str().unwrap_or("").to_string(),
                    class: j["class"].as_str().unwrap_or("").to_string(),
                    what: j["what"].as_str().unwrap_or("").to_string(),
                });
            }
        }
    }
    v
}

// ---------------------------------------------------------------------------------------------
// Parent mode

pub struct CheckArgs {
    pub tier: Tier,
    pub root_seed: u64,
    pub cases: Option<u64>,
    pub jobs: usize,
    pub write_evidence: bool,
}

struct RawViolation {
    index: u64,
    case_seed: u64,
    case: Value,
    class: String,
    detail: String,
}

enum Msg {
    Line(usize, String),
    Eof(usize),
}

struct WState {
    child: std::process::Child,
    in_flight: Option<u64>,
    done: u64, // cases completed by this shard (count)
    finished: bool,
    last_x: Option<String>,
}

fn spawn_worker(
    p: &dyn Property,
    a: &CheckArgs,
    cases: u64,
    shard: usize,
    nshards: usize,
    from: u64,
    tx: &mpsc::Sender<Msg>,
    emit_logs: bool,
) -> std::io::Result<std::process::Child> {
    let mut cmd = child_cmd(p);
    cmd.arg("worker")
        .arg(p.id())
        .arg("--tier")
        .arg(a.tier.name())
        .arg("--seed")
        .arg(a.root_seed.to_string())
        .arg("--shard")
        .arg(format!("{}/{}", shard, nshards))
        .arg("--from")
        .arg(from.to_string())
        .arg("--cases")
        .arg(cases.to_string());
    if emit_logs {
        cmd.arg("--emit-logs");
    }
    cmd.stdin(Stdio::null()).stdout(Stdio::piped()).stderr(Stdio::null());
    let mut ch = cmd.spawn()?;
    let so = ch.stdout.take().unwrap();
    let tx = tx.clone();
    std::thread::spawn(move || {
        let rd = BufReader::new(so);
        for l in rd.split(b'\n') {
            match l {
                Ok(bytes) => {
                    let s = String::from_utf8_lossy(&bytes).to_string();
                    if tx.send(Msg::Line(shard, s)).is_err() {
                        return;
                    }
                }
                Err(_) => break,
            }
        }
        let _ = tx.send(Msg::Eof(shard));
    });
    Ok(ch)
}

pub struct SweepResult {
    pub agg: Agg,
    raw: Vec<RawViolation>,
    pub samples: Vec<Value>,
    pub harness_errors: Vec<String>,
    pub logs: BTreeMap<u64, (u64, u64)>,
    pub worker_restarts: u64,
}

pub fn sweep(p: &dyn Property, a: &CheckArgs, emit_logs: bool) -> SweepResult {
    let cases = a.cases.unwrap_or_else(|| p.cases(a.tier));
    let n = a.jobs.max(1).min(cases.max(1) as usize);
    let (tx, rx) = mpsc::channel();
    let mut ws: Vec<WState> = vec![];
    let mut res = SweepResult {
        agg: Agg::default(),
        raw: vec![],
        samples: vec![],
        harness_errors: vec![],
        logs: BTreeMap::new(),
        worker_restarts: 0,
    };
    for s in 0..n {
        match spawn_worker(p, a, cases, s, n, 0, &tx, emit_logs) {
            Ok(child) => ws.push(WState { child, in_flight: None, done: 0, finished: false, last_x: None }),
            Err(e) => {
                res.harness_errors.push(format!("cannot spawn worker: {}", e));
                return res;
            }
        }
    }
    let mut live = n;
    let mut killing = false;
    let max_violations = if std::env::var("VERIF_NO_CAP").is_ok() { usize::MAX } else { 40 };
    let known_classes: HashSet<String> =
        load_known_findings().into_iter().filter(|k| k.property == p.id()).map(|k| k.class).collect();
    let unknown = |raw: &Vec<RawViolation>| raw.iter().filter(|v| !known_classes.contains(&v.class)).count();
    while live > 0 {
        let m = match rx.recv() {
            Ok(m) => m,
            Err(_) => break,
        };
        match m {
            Msg::Line(s, l) => {
                let w = &mut ws[s];
                if let Some(r) = l.strip_prefix("S ") {
                    w.in_flight = r.trim().parse().ok();
                } else if l.starts_with("E ") {
                    w.in_flight = None;
                    w.done += 1;
                } else if let Some(r) = l.strip_prefix("A ") {
                    if let Ok(v) = serde_json::from_str::<Value>(r) {
                        res.agg.merge_json(&v);
                    }
                } else if let Some(r) = l.strip_prefix("V ") {
                    if let Ok(v) = serde_json::from_str::<Value>(r) {
                        res.raw.push(RawViolation {
                            index: v["index"].as_u64().unwrap_or(0),
                            case_seed: v["case_seed"].as_u64().unwrap_or(0),
                            case: v["case"].clone(),
                            class: v["violation"]["class"].as_str().unwrap_or("?").to_string(),
                            detail: v["violation"]["detail"].as_str().unwrap_or("").to_string(),
                        });
                    }
                } else if let Some(r) = l.strip_prefix("P ") {
                    if res.samples.len() < 6 {
                        if let Ok(v) = serde_json::from_str::<Value>(r) {
                            res.samples.push(v);
                        }
                    }
                } else if let Some(r) = l.strip_prefix("L ") {
                    let mut it = r.split_whitespace();
                    if let (Some(i), Some(a1), Some(b1)) = (it.next(), it.next(), it.next()) {
                        if let (Ok(i), Ok(a1), Ok(b1)) = (i.parse(), a1.parse(), b1.parse()) {
                            res.logs.insert(i, (a1, b1));
                        }
                    }
                } else if let Some(r) = l.strip_prefix("H ") {
                    res.harness_errors.push(r.to_string());
                } else if l.starts_with("X ") {
                    w.last_x = Some(l.clone());
                } else if l == "Z" {
                    w.finished = true;
                }
            }
            Msg::Eof(s) => {
                let status = ws[s].child.wait().ok();
                if ws[s].finished || killing || !res.harness_errors.is_empty() {
                    live -= 1;
                    continue;
                }
                // the worker died or bailed out
                let exited3 = status.map(|st| st.code() == Some(3)).unwrap_or(false);
                if let (Some(idx), false) = (ws[s].in_flight, exited3) {
                    // died inside case idx: attribute
                    let x = ws[s].last_x.take().unwrap_or_default();
                    let (class, detail) = match status {
                        Some(st) => classify_death(st, &x),
                        None => ("crash-unknown".into(), "worker vanished".into()),
                    };
                    let cs = case_seed(a.root_seed, p.id(), idx);
                    res.raw.push(RawViolation {
                        index: idx,
                        case_seed: cs,
                        case: Value::Null, // regenerated in isolation below
                        class,
                        detail,
                    });
                    ws[s].done += 1;
                    res.agg.evaluations += 1;
                } else if ws[s].in_flight.is_none() && !exited3 {
                    res.harness_errors
                        .push(format!("worker {} ended unexpectedly between cases ({:?})", s, status));
                    live -= 1;
                    continue;
                }
                ws[s].in_flight = None;
                let next_index = s as u64 + ws[s].done * n as u64;
                if next_index >= cases || unknown(&res.raw) >= max_violations {
                    live -= 1;
                    continue;
                }
                res.worker_restarts += 1;
                match spawn_worker(p, a, cases, s, n, ws[s].done, &tx, emit_logs) {
                    Ok(child) => ws[s].child = child,
                    Err(e) => {
                        res.harness_errors.push(format!("cannot respawn worker: {}", e));
                        live -= 1;
                    }
                }
            }
        }
        if unknown(&res.raw) >= max_violations && !killing {
            killing = true;
            for w in ws.iter_mut() {
                let _ = w.child.kill();
            }
        }
    }
    res
}

/// Ask a preloaded child to generate the explicit case for a seed (needed when the generating
/// worker died before it could print the case).
fn gen_isolated(p: &dyn Property, cs: u64, tier: Tier) -> Option<Value> {
    let mut cmd = child_cmd(p);
    cmd.arg("gen-case").arg(p.id()).arg("--tier").arg(tier.name()).arg("--case-seed").arg(cs.to_string());
    cmd.stdin(Stdio::null()).stdout(Stdio::piped()).stderr(Stdio::null());
    let out = cmd.output().ok()?;
    let s = String::from_utf8_lossy(&out.stdout);
    let l = s.lines().find(|l| l.starts_with("G "))?;
    serde_json::from_str(&l[2..]).ok()
}

pub fn gen_case_main(p: &dyn Property, tier: Tier, cs: u64) -> i32 {
    install_panic_hook();
    let ctx = match make_ctx(p, tier) {
        Ok(c) => c,
        Err(e) => {
            out_line(&format!("H {}", json!(e)));
            return 2;
        }
    };
    let case = p.gen(cs, tier, &ctx);
    out_line(&format!("G {}", case));
    0
}

fn minimise(p: &dyn Property, case: Value, class: &str, tier: Tier, budget: usize) -> (Value, usize) {
    let mut cur = case;
    let mut attempts = 0;
    let t0 = std::time::Instant::now();
    'outer: loop {
        let cands = p.shrink(&cur);
        for c in cands {
            if attempts >= budget || t0.elapsed().as_secs() > 45 {
                break 'outer;
            }
            attempts += 1;
            let r = exec_isolated(p, &c, tier);
            if r.has_class(class) {
                cur = match r {
                    Iso::Outcome(Outcome { refined: Some(rc), .. }) => rc,
                    _ => c,
                };
                continue 'outer;
            }
        }
        break;
    }
    (cur, attempts)
}

pub fn check_main(p: &dyn Property, a: CheckArgs) -> i32 {
    let t0 = std::time::Instant::now();
    let d = p.describe();
    eprintln!(
        "[simcheck] property={} tier={} seed={} cases={} jobs={}",
        p.id(),
        a.tier.name(),
        a.root_seed,
        a.cases.unwrap_or_else(|| p.cases(a.tier)),
        a.jobs
    );
    let res = sweep(p, &a, false);
    if !res.harness_errors.is_empty() {
        for e in &res.harness_errors {
            eprintln!("HARNESS-ERROR property={} {}", p.id(), e);
        }
        return 2;
    }
    let sweep_s = t0.elapsed().as_secs_f64();

    // ---- triage: dedup by class, replay, minimise, report
    let known = load_known_findings();
    let mut harness_trouble = false;
    // A worker that died mid-case could only tell us its exit status. Re-run such cases in an
    // isolated child first: that run (with stderr captured) names the authoritative class.
    let mut resolved: Vec<RawViolation> = vec![];
    let mut deaths_resolved = 0;
    for v in res.raw.iter() {
        if !v.case.is_null() {
            resolved.push(RawViolation { index: v.index, case_seed: v.case_seed, case: v.case.clone(), class: v.class.clone(), detail: v.detail.clone() });
            continue;
        }
        if deaths_resolved >= 24 {
            continue;
        }
        deaths_resolved += 1;
        match gen_isolated(p, v.case_seed, a.tier) {
            Some(case) => {
                let r = exec_isolated(p, &case, a.tier);
                match r.class() {
                    Some(c) => resolved.push(RawViolation { index: v.index, case_seed: v.case_seed, case, class: c, detail: r.detail() }),
                    None => {
                        eprintln!(
                            "HARNESS-ERROR property={} worker died in case_seed={} ({}), but the case ran clean in a fresh process ({}) — not reported as a violation",
                            p.id(), v.case_seed, v.class, r.detail()
                        );
                        harness_trouble = true;
                    }
                }
            }
            None => {
                eprintln!("HARNESS-ERROR property={} could not regenerate case_seed={}", p.id(), v.case_seed);
                harness_trouble = true;
            }
        }
    }
    let mut by_class: BTreeMap<String, Vec<&RawViolation>> = BTreeMap::new();
    for v in &resolved {
        by_class.entry(v.class.clone()).or_default().push(v);
    }
    let mut violations = 0;
    let mut known_hit: BTreeSet<String> = BTreeSet::new();
    let replay_dir = verif_root().join("replay");
    let _ = std::fs::create_dir_all(&replay_dir);
    let mut minimised = 0;
    for (class, vs) in &by_class {
        if let Some(k) = known.iter().find(|k| k.property == p.id() && &k.class == class) {
            if known_hit.insert(class.clone()) {
                println!(
                    "KNOWN-FINDING: property={} {} [{}; {} case(s) this run, e.g. case_seed={}]",
                    p.id(),
                    k.what,
                    class,
                    vs.len(),
                    vs[0].case_seed
                );
            }
            continue;
        }
        // unknown class: take the first instance, make it explicit, confirm by isolated replay
        let v = vs[0];
        let case = if v.case.is_null() {
            match gen_isolated(p, v.case_seed, a.tier) {
                Some(c) => c,
                None => {
                    eprintln!("HARNESS-ERROR property={} could not regenerate case_seed={}", p.id(), v.case_seed);
                    harness_trouble = true;
                    continue;
                }
            }
        } else {
            v.case.clone()
        };
        let first = exec_isolated(p, &case, a.tier);
        if class == "hang" && first.class().is_none() && !first.has_class(class) {
            // CPU time is the one oracle that is not a pure function of the seed (it grows under
            // memory-bandwidth contention between workers). A hang verdict that the same case does
            // not earn when run alone is load, not a violation and not a harness defect.
            eprintln!(
                "[simcheck] WARNING property={} case_seed={} exceeded the CPU limit in a loaded worker but completes in a fresh process — counted as slow-under-load",
                p.id(), v.case_seed
            );
            continue;
        }
        if !first.has_class(class) {
            eprintln!(
                "HARNESS-ERROR property={} violation class {:?} (case_seed={}) did not reproduce in a fresh process (got {:?}: {}) — not reported as a violation",
                p.id(), class, v.case_seed, first.class(), first.detail()
            );
            harness_trouble = true;
            continue;
        }
        let (mcase, attempts) = if minimised < 4 {
            minimised += 1;
            minimise(p, case.clone(), class, a.tier, 400)
        } else {
            (case.clone(), 0)
        };
        let fin = exec_isolated(p, &mcase, a.tier);
        let (mcase, fin) = if fin.has_class(class) { (mcase, fin) } else { (case, first) };
        let path = replay_dir.join(format!("{}-{}-{:08x}.json", p.id(), v.case_seed, fnv1a(class.as_bytes()) as u32));
        let doc = json!({
            "property": p.id(),
            "root_seed": a.root_seed,
            "case_seed": v.case_seed,
            "case_index": v.index,
            "tier": a.tier.name(),
            "class": class,
            "detail": fin.detail_of(class),
            "first_seen_detail": v.detail,
            "instances_this_run": vs.len(),
            "minimise_attempts": attempts,
            "case": mcase,
        });
        if std::fs::write(&path, serde_json::to_string_pretty(&doc).unwrap()).is_err() {
            eprintln!("HARNESS-ERROR cannot write {}", path.display());
            harness_trouble = true;
            continue;
        }
        // the file itself must reproduce
        match replay_file(p, &path) {
            Ok(Some(c)) if &c == class => {
                violations += 1;
                println!("VIOLATION property={} replay={}", p.id(), path.display());
                println!("  class={} detail={}", class, fin.detail_of(class));
            }
            other => {
                eprintln!("HARNESS-ERROR property={} replay file {} did not reproduce ({:?})", p.id(), path.display(), other);
                harness_trouble = true;
            }
        }
    }

    let wall = t0.elapsed().as_secs_f64();
    if a.write_evidence {
        write_evidence(p, &a, &d, &res, violations, known_hit.len(), wall, sweep_s);
    }
    eprintln!(
        "[simcheck] property={} evaluations={} distinct_nontrivial={} states={} violations={} known_findings={} wall={:.1}s",
        p.id(),
        res.agg.evaluations,
        res.agg.digests.len(),
        res.agg.states.len(),
        violations,
        known_hit.len(),
        wall
    );
    if violations > 0 {
        1
    } else if harness_trouble {
        2
    } else {
        0
    }
}

pub fn replay_file(p: &dyn Property, path: &std::path::Path) -> Result<Option<String>, String> {
    let s = std::fs::read_to_string(path).map_err(|e| e.to_string())?;
    let j: Value = serde_json::from_str(&s).map_err(|e| e.to_string())?;
    let tier = Tier::parse(j["tier"].as_str().unwrap_or("quick")).unwrap_or(Tier::Quick);
    let want = j["class"].as_str().unwrap_or("").to_string();
    match exec_isolated(p, &j["case"], tier) {
        Iso::Harness(e) => Err(e),
        other => Ok(if other.has_class(&want) { Some(want) } else { other.class() }),
    }
}

pub fn replay_main(p: &dyn Property, path: &std::path::Path) -> i32 {
    let s = match std::fs::read_to_string(path) {
        Ok(s) => s,
        Err(e) => {
            eprintln!("cannot read {}: {}", path.display(), e);
            return 2;
        }
    };
    let j: Value = serde_json::from_str(&s).unwrap_or(Value::Null);
    let tier = Tier::parse(j["tier"].as_str().unwrap_or("quick")).unwrap_or(Tier::Quick);
    let want = j["class"].as_str().unwrap_or("").to_string();
    let r = exec_isolated(p, &j["case"], tier);
    match &r {
        Iso::Harness(e) => {
            eprintln!("HARNESS-ERROR {}", e);
            2
        }
        _ => match if r.has_class(&want) { Some(want.clone()) } else { r.class() } {
            Some(c) => {
                println!("VIOLATION property={} replay={}", p.id(), path.display());
                println!("  class={} detail={}", c, r.detail_of(&c));
                if c != want {
                    println!("  note: recorded class was {}", want);
                }
                1
            }
            None => {
                println!("replay of {} held (no violation)", path.display());
                0
            }
        },
    }
}

#[allow(clippy::too_many_arguments)]
fn write_evidence(
    p: &dyn Property,
    a: &CheckArgs,
    d: &Describe,
    res: &SweepResult,
    violations: usize,
    known: usize,
    wall: f64,
    sweep_s: f64,
) {
    let ev = &res.agg;
    let fired: BTreeMap<&String, &u64> = ev.counters.iter().filter(|(k, _)| k.starts_with("fault.")).collect();
    let probes: BTreeMap<&String, &u64> = ev.counters.iter().filter(|(k, _)| k.starts_with("probe.")).collect();
    let other: BTreeMap<&String, &u64> =
        ev.counters.iter().filter(|(k, _)| !k.starts_with("probe.") && !k.starts_with("fault.")).collect();
    let stuck: Vec<&String> = probes.iter().filter(|(_, v)| ***v == 0).map(|(k, _)| *k).collect();
    for s in &stuck {
        eprintln!("[simcheck] WARNING reach probe stuck at 0: {}", s);
    }
    let per_hour = if sweep_s > 0.0 { (ev.evaluations as f64 / sweep_s * 3600.0) as u64 } else { 0 };
    let doc = json!({
        "property_id": p.id(),
        "tier": a.tier.name(),
        "seed": a.root_seed,
        "level": d.level,
        "coverage": {
            "evaluations": ev.evaluations,
            "distinct_nontrivial": ev.digests.len(),
            "rule": d.rule,
            "samples": res.samples,
            "nontrivial_cases": ev.nontrivial,
            "distinct_states_or_interleavings": ev.states.len(),
            "simulated_runs_per_hour": per_hour,
            "simulated_steps": ev.sim_steps,
            "simulated_time_s": (ev.sim_ns as f64) / 1e9,
            "faults_fired": fired,
            "reach_probes": probes,
            "probes_stuck_at_zero": stuck,
            "counters": other,
            "fault_kinds_available": d.fault_kinds,
            "components_real": d.real_components,
            "components_stub": d.stub_components,
            "worker_restarts": res.worker_restarts,
            "known_findings_seen": known,
            "exhaustive": false,
            "exhaustive_note": d.exhaustive_note,
            "run_log_digest": ev.log_digest,
        },
        "assumptions": d.assumptions,
        "wall_s": wall,
        "violations": violations,
    });
    let dir = verif_root().join("evidence");
    let _ = std::fs::create_dir_all(&dir);
    let path = dir.join(format!("{}.json", p.id()));
    if let Err(e) = std::fs::write(&path, serde_json::to_string_pretty(&doc).unwrap()) {
        eprintln!("[simcheck] cannot write evidence {}: {}", path.display(), e);
    }
}

/// Determinism self-test: the same seeds run twice, at two worker counts, must give the same
/// per-case (event-log digest, result digest).
pub fn determinism_main(p: &dyn Property, tier: Tier, root_seed: u64, cases: u64) -> i32 {
    let mk = |jobs| CheckArgs { tier, root_seed, cases: Some(cases), jobs, write_evidence: false };
    let r1 = sweep(p, &mk(16), true);
    let r2 = sweep(p, &mk(16), true);
    let r3 = sweep(p, &mk(3), true);
    for r in [&r1, &r2, &r3] {
        if !r.harness_errors.is_empty() {
            eprintln!("HARNESS-ERROR {:?}", r.harness_errors);
            return 2;
        }
    }
    let mut bad = 0;
    for (i, v) in &r1.logs {
        if r2.logs.get(i) != Some(v) || r3.logs.get(i) != Some(v) {
            bad += 1;
            if bad <= 5 {
                eprintln!(
                    "NONDETERMINISM property={} case={} seed={} logs {:?} / {:?} / {:?}",
                    p.id(), i, case_seed(root_seed, p.id(), *i), v, r2.logs.get(i), r3.logs.get(i)
                );
            }
        }
    }
    eprintln!(
        "[determinism] property={} cases={} compared={} divergent={}",
        p.id(), cases, r1.logs.len(), bad
    );
    if bad > 0 || r1.logs.len() as u64 != cases {
        2
    } else {
        0
    }
}

pub fn arc_flag() -> Arc<AtomicBool> {
    Arc::new(AtomicBool::new(false))
}
