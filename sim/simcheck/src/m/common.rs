//! Shared plumbing: the one PRNG, seed derivation, hashing, outcome/violation types.

use serde::{Deserialize, Serialize};
use std::collections::BTreeMap;

pub const DEFAULT_SEED: u64 = 20260921;

/// SplitMix64 — the only source of choice in the simulator.
#[derive(Clone, Debug)]
pub struct Rng(pub u64);

impl Rng {
    pub fn new(seed: u64) -> Self {
        Rng(seed)
    }
    pub fn next_u64(&mut self) -> u64 {
        self.0 = self.0.wrapping_add(0x9E3779B97F4A7C15);
        let mut z = self.0;
        z = (z ^ (z >> 30)).wrapping_mul(0xBF58476D1CE4E5B9);
        z = (z ^ (z >> 27)).wrapping_mul(0x94D049BB133111EB);
        z ^ (z >> 31)
    }
    /// uniform in 0..n (n > 0)
    pub fn below(&mut self, n: u64) -> u64 {
        debug_assert!(n > 0);
        self.next_u64() % n
    }
    pub fn usize_below(&mut self, n: usize) -> usize {
        self.below(n as u64) as usize
    }
    /// uniform in lo..=hi
    pub fn range(&mut self, lo: i64, hi: i64) -> i64 {
        lo + self.below((hi - lo + 1) as u64) as i64
    }
    pub fn chance(&mut self, num: u64, den: u64) -> bool {
        self.below(den) < num
    }
    pub fn pick<'a, T>(&mut self, xs: &'a [T]) -> &'a T {
        &xs[self.usize_below(xs.len())]
    }
    pub fn bytes(&mut self, n: usize) -> Vec<u8> {
        let mut v = Vec::with_capacity(n);
        while v.len() < n {
            let r = self.next_u64().to_le_bytes();
            let k = (n - v.len()).min(8);
            v.extend_from_slice(&r[..k]);
        }
        v
    }
    pub fn fork(&mut self) -> Rng {
        Rng(self.next_u64())
    }
}

pub fn mix(a: u64, b: u64) -> u64 {
    let mut r = Rng(a ^ b.rotate_left(32) ^ 0xA24BAED4963EE407);
    r.next_u64()
}

pub fn prop_tag(id: &str) -> u64 {
    fnv1a(id.as_bytes())
}

pub fn case_seed(root: u64, prop: &str, i: u64) -> u64 {
    mix(mix(root, prop_tag(prop)), i)
}

pub fn fnv1a(data: &[u8]) -> u64 {
    let mut h: u64 = 0xcbf29ce484222325;
    for b in data {
        h ^= *b as u64;
        h = h.wrapping_mul(0x100000001b3);
    }
    h
}

pub fn fnv1a_more(mut h: u64, data: &[u8]) -> u64 {
    for b in data {
        h ^= *b as u64;
        h = h.wrapping_mul(0x100000001b3);
    }
    h
}

pub fn hex(data: &[u8]) -> String {
    let mut s = String::with_capacity(data.len() * 2);
    for b in data {
        s.push_str(&format!("{:02x}", b));
    }
    s
}

pub fn unhex(s: &str) -> Vec<u8> {
    let b = s.as_bytes();
    let mut v = Vec::with_capacity(b.len() / 2);
    let mut i = 0;
    while i + 1 < b.len() {
        let h = (b[i] as char).to_digit(16).unwrap_or(0) as u8;
        let l = (b[i + 1] as char).to_digit(16).unwrap_or(0) as u8;
        v.push(h << 4 | l);
        i += 2;
    }
    v
}

#[derive(Clone, Debug, Serialize, Deserialize, PartialEq)]
pub struct Violation {
    /// Stable class of the violation (what minimisation preserves, what known findings key on).
    pub class: String,
    /// Human-readable detail: observed vs expected.
    pub detail: String,
}

/// What executing one explicit case produced.
#[derive(Clone, Debug, Default, Serialize, Deserialize)]
pub struct Outcome {
    pub violation: Option<Violation>,
    /// case reached the part of the system the property is about
    pub nontrivial: bool,
    /// digest of the case's observable behaviour (distinctness measure)
    pub digest: u64,
    /// per-fault-kind fired counts, reach probes, sizes…
    pub counters: BTreeMap<String, u64>,
    /// simulated steps (I/O calls, scheduler steps) and simulated time
    pub sim_steps: u64,
    pub sim_ns: u64,
    /// deterministic event-log digest (for the determinism self-test)
    pub log_digest: u64,
    /// extra distinct-state hashes reached (interleavings, model states)
    pub states: Vec<u64>,
    /// the case made more explicit by the run that failed (e.g. with the failing schedule filled in)
    pub refined: Option<serde_json::Value>,
    /// further violations of other classes found by the same case, each with its explicit case
    #[serde(default)]
    pub more: Vec<(Violation, serde_json::Value)>,
}

impl Outcome {
    pub fn bump(&mut self, k: &str, n: u64) {
        *self.counters.entry(k.to_string()).or_insert(0) += n;
    }
    pub fn violate(&mut self, class: &str, detail: String) {
        if self.violation.is_none() {
            self.violation = Some(Violation {
                class: class.to_string(),
                detail,
            });
        }
    }
}

#[derive(Clone, Copy, Debug, PartialEq, Eq)]
pub enum Tier {
    Quick,
    Thorough,
}

impl Tier {
    pub fn name(self) -> &'static str {
        match self {
            Tier::Quick => "quick",
            Tier::Thorough => "thorough",
        }
    }
    pub fn parse(s: &str) -> Option<Tier> {
        match s {
            "quick" => Some(Tier::Quick),
            "thorough" => Some(Tier::Thorough),
            _ => None,
        }
    }
}

pub fn verif_root() -> std::path::PathBuf {
    if let Ok(p) = std::env::var("VERIF_ROOT") {
        return p.into();
    }
    // binary lives at <root>/sim/target/debug/simcheck
    let exe = std::env::current_exe().unwrap_or_default();
    let mut p = exe.clone();
    for _ in 0..4 {
        p.pop();
    }
    if p.join("properties.jsonl").exists() {
        p
    } else {
        "/verif".into()
    }
}
