//! C22 — batch processing reports every job exactly once under any schedule.
//! The real BatchProcessor / WorkerPool / Worker / BatchProgress code runs on shuttle tasks; job
//! bodies are harness closures (the documented `BatchJob::Custom` extension point) that succeed,
//! fail, panic, or flip the cancel flag; a canceller task may flip it at a scheduler-chosen point.

use crate::common::*;
use crate::runner::*;
use crate::sched::{self, RecScheduler, RunEnd, SchedKind, Trace};
use oxidize_pdf::batch::{
    BatchJob, BatchOptions, BatchProcessor, BatchProgress, JobResult, ProgressInfo, WorkerOptions, WorkerPool,
};
use serde::{Deserialize, Serialize};
use serde_json::Value;
use std::sync::atomic::{AtomicU64, Ordering as StdOrdering};
use std::sync::{Arc, Mutex};
use verif_shim::sync::atomic::{AtomicBool, Ordering};

pub struct C22;

#[derive(Clone, Copy, Debug, Serialize, Deserialize, PartialEq)]
pub enum JobKind {
    /// body returns Ok
    Ok,
    /// body returns Err
    Err,
    /// body panics
    Panic,
    /// body sets the caller's cancel flag, then returns Ok (process_jobs entry only)
    CancelThenOk,
    /// built-in Split job on a non-existent input: fails deterministically inside real code
    BuiltinMissing,
    /// built-in Rotate job (the library implements it as a file copy) on an inert real temp file:
    /// succeeds inside real code; "its operation ran" is observable as the output file existing
    BuiltinCopy,
}

#[derive(Clone, Copy, Debug, Serialize, Deserialize, PartialEq)]
pub enum Cancel {
    None,
    /// flag set before the batch starts
    Before,
    /// a separate task sets the flag at a point the scheduler chooses
    Canceller,
}

#[derive(Clone, Debug, Serialize, Deserialize)]
pub struct Case {
    pub jobs: Vec<JobKind>,
    pub parallelism: usize,
    pub stop_on_error: bool,
    pub progress: bool,
    pub timeout_arm: bool,
    pub cancel: Cancel,
    /// "execute" (BatchProcessor::execute) or "process_jobs" (WorkerPool::process_jobs)
    pub entry: String,
    pub sched: SchedKind,
    pub sched_seed: u64,
    pub iterations: usize,
    pub trace: Option<Trace>,
}

fn gen_case(cs: u64, tier: Tier) -> Case {
    let mut r = Rng::new(cs);
    let n = r.usize_below(7);
    let entry = if r.chance(1, 2) { "execute" } else { "process_jobs" };
    // swarm: per case choose which outcome kinds are enabled
    let allow_err = r.chance(2, 3);
    let allow_panic = r.chance(1, 2);
    let allow_builtin = r.chance(1, 6);
    let allow_cancel_inside = entry == "process_jobs" && r.chance(1, 3);
    let mut jobs = vec![];
    for _ in 0..n {
        let c = r.below(100);
        let k = if c < 25 && allow_err {
            JobKind::Err
        } else if c < 40 && allow_panic {
            JobKind::Panic
        } else if c < 50 && allow_builtin {
            if c % 2 == 0 { JobKind::BuiltinMissing } else { JobKind::BuiltinCopy }
        } else if c < 58 && allow_cancel_inside {
            JobKind::CancelThenOk
        } else {
            JobKind::Ok
        };
        jobs.push(k);
    }
    let progress = entry == "execute" && r.chance(1, 3);
    let cancel = match r.below(10) {
        0 => Cancel::Before,
        1 | 2 if entry == "process_jobs" => Cancel::Canceller,
        _ => Cancel::None,
    };
    // never run the spin-waiting progress poller under a priority scheduler (it starves everyone
    // behind the spin loop, which would be a false alarm, not a finding)
    let sched = if !progress && n >= 1 && r.chance(1, 3) { SchedKind::Pct(2 + r.usize_below(2)) } else { SchedKind::Random };
    Case {
        jobs,
        parallelism: 1 + r.usize_below(4),
        stop_on_error: r.chance(1, 2),
        progress,
        timeout_arm: r.chance(1, 2),
        cancel,
        entry: entry.to_string(),
        sched,
        sched_seed: r.next_u64(),
        iterations: if tier == Tier::Quick { 60 } else { 600 },
        trace: None,
    }
}

#[derive(Clone, Debug)]
struct BodyEvent {
    seq: u64,
    job: usize,
    thread: usize,
    /// true = entry, false = exit
    enter: bool,
    /// value of the cancel flag read by the body at entry (process_jobs entry only)
    flag: Option<bool>,
}

struct Shared {
    failure: Option<(String, String, Trace)>,
    traces: std::collections::HashSet<u64>,
    steps: u64,
    probes: std::collections::BTreeMap<&'static str, u64>,
}

fn job_name(i: usize, k: JobKind) -> String {
    match k {
        JobKind::BuiltinMissing => format!("Split verif-missing-{}.pdf", i),
        JobKind::BuiltinCopy => format!("Rotate verif-in-{}.pdf by 90°", i),
        _ => format!("job-{}", i),
    }
}

/// Inert real files for the built-in job arm (the only contact with the real filesystem; DESIGN §1.1).
fn scratch_dir() -> std::path::PathBuf {
    static DIR: std::sync::OnceLock<std::path::PathBuf> = std::sync::OnceLock::new();
    DIR.get_or_init(|| {
        let d = std::env::temp_dir().join(format!("simcheck-c22-{}", std::process::id()));
        let _ = std::fs::create_dir_all(&d);
        for i in 0..8 {
            let _ = std::fs::write(d.join(format!("verif-in-{}.pdf", i)), b"%PDF-1.4\n% inert input\n");
        }
        d
    })
    .clone()
}

fn copy_output(exec_id: u64, i: usize) -> std::path::PathBuf {
    scratch_dir().join(format!("out-{}-{}.pdf", exec_id, i))
}

fn cleanup_scratch_outputs_only() {
    if let Ok(rd) = std::fs::read_dir(scratch_dir()) {
        for e in rd.flatten() {
            if e.file_name().to_string_lossy().starts_with("out-") {
                let _ = std::fs::remove_file(e.path());
            }
        }
    }
}

pub fn cleanup_scratch() {
    let d = std::env::temp_dir().join(format!("simcheck-c22-{}", std::process::id()));
    let _ = std::fs::remove_dir_all(d);
}

fn make_job(
    i: usize,
    k: JobKind,
    log: Arc<Mutex<Vec<BodyEvent>>>,
    seq: Arc<AtomicU64>,
    flag: Option<Arc<AtomicBool>>,
    exec_id: u64,
) -> BatchJob {
    if k == JobKind::BuiltinCopy {
        return BatchJob::Rotate {
            input: scratch_dir().join(format!("verif-in-{}.pdf", i)),
            output: copy_output(exec_id, i),
            rotation: 90,
            pages: None,
        };
    }
    if k == JobKind::BuiltinMissing {
        return BatchJob::Split {
            input: format!("/nonexistent-verif-dir/verif-missing-{}.pdf", i).into(),
            output_pattern: "/nonexistent-verif-dir/out_%d.pdf".into(),
            pages_per_file: 1,
        };
    }
    BatchJob::Custom {
        name: job_name(i, k),
        operation: Box::new(move || {
            let thread: usize = shuttle::thread::current().id().into();
            let seen = flag.as_ref().map(|f| f.load(Ordering::SeqCst));
            log.lock().unwrap().push(BodyEvent {
                seq: seq.fetch_add(1, StdOrdering::SeqCst),
                job: i,
                thread,
                enter: true,
                flag: seen,
            });
            let r = match k {
                JobKind::Ok => Ok(()),
                JobKind::Err => Err(oxidize_pdf::error::PdfError::InvalidStructure(format!("job {} fails", i))),
                JobKind::Panic => {
                    log.lock().unwrap().push(BodyEvent {
                        seq: seq.fetch_add(1, StdOrdering::SeqCst),
                        job: i,
                        thread,
                        enter: false,
                        flag: None,
                    });
                    std::panic::panic_any(JobPanic)
                }
                JobKind::CancelThenOk => {
                    if let Some(f) = &flag {
                        f.store(true, Ordering::SeqCst);
                    }
                    Ok(())
                }
                JobKind::BuiltinMissing | JobKind::BuiltinCopy => unreachable!(),
            };
            log.lock().unwrap().push(BodyEvent {
                seq: seq.fetch_add(1, StdOrdering::SeqCst),
                job: i,
                thread,
                enter: false,
                flag: None,
            });
            r
        }),
    }
}

fn kind_of(r: &JobResult) -> &'static str {
    match r {
        JobResult::Success { .. } => "Success",
        JobResult::Failed { .. } => "Failed",
        JobResult::Cancelled { .. } => "Cancelled",
    }
}

/// The oracles O1–O5 over one finished execution. Returns (class, detail) of the first failure.
#[allow(clippy::too_many_arguments)]
fn judge(
    c: &Case,
    results: &[JobResult],
    summary: Option<(usize, usize, usize)>,
    final_progress: Option<(usize, usize, usize, usize)>,
    log: &[BodyEvent],
    copied: &[bool],
    probes: &mut std::collections::BTreeMap<&'static str, u64>,
) -> Option<(String, String)> {
    let n = c.jobs.len();
    let render = |rs: &[JobResult]| rs.iter().map(|r| format!("{}:{}", r.job_name(), kind_of(r))).collect::<Vec<_>>();
    // O1: exactly one result per submitted job, in submission order
    if results.len() != n {
        let kinds: Vec<String> = c.jobs.iter().map(|k| format!("{:?}", k)).collect();
        let has_panic = c.jobs.contains(&JobKind::Panic);
        return Some((
            if results.len() < n {
                if has_panic { "O1-missing-result-after-panic".into() } else { "O1-missing-result".into() }
            } else {
                "O1-extra-result".into()
            },
            format!("{} jobs {:?} submitted, {} results returned: {:?}", n, kinds, results.len(), render(results)),
        ));
    }
    for (i, r) in results.iter().enumerate() {
        if r.job_name() != job_name(i, c.jobs[i]) {
            return Some((
                "O1-order".into(),
                format!("results[{}] is for {:?}, expected {:?}; all: {:?}", i, r.job_name(), job_name(i, c.jobs[i]), render(results)),
            ));
        }
    }
    let succ = results.iter().filter(|r| r.is_success()).count();
    let fail = results.iter().filter(|r| r.is_failed()).count();
    // O2: summary counts match the results
    if let Some((total, s, f)) = summary {
        if total != n || s != succ || f != fail {
            return Some((
                "O2-summary-counts".into(),
                format!("summary total/successful/failed = {}/{}/{}, results give {}/{}/{}", total, s, f, n, succ, fail),
            ));
        }
    }
    // O3: progress counters end consistent with the results
    if let Some((total, completed, failed, running)) = final_progress {
        if total != n || completed != succ || failed != fail || running != 0 {
            return Some((
                "O3-progress-counters".into(),
                format!(
                    "final progress total/completed/failed/running = {}/{}/{}/{}, results give {}/{}/{}/0 ({:?})",
                    total, completed, failed, running, n, succ, fail, render(results)
                ),
            ));
        }
    }
    // O4: fidelity of each result to what its body did
    for i in 0..n {
        let entries = log.iter().filter(|e| e.job == i && e.enter).count();
        if entries > 1 {
            return Some(("O4-body-ran-twice".into(), format!("body of job {} entered {} times", i, entries)));
        }
        let r = &results[i];
        match c.jobs[i] {
            JobKind::BuiltinMissing => {
                if r.is_success() {
                    return Some(("O4-fidelity".into(), format!("built-in job {} on a missing input reported Success", i)));
                }
            }
            JobKind::BuiltinCopy => {
                // ran (output exists) => Success; did not run => Cancelled or Failed
                let good = if copied[i] { r.is_success() } else { r.is_cancelled() || r.is_failed() };
                if !good {
                    return Some((
                        "O4-fidelity".into(),
                        format!("built-in copy job {} ran={} but result is {}", i, copied[i], kind_of(r)),
                    ));
                }
            }
            k => {
                let ran = entries == 1;
                let ok_body = matches!(k, JobKind::Ok | JobKind::CancelThenOk);
                let good = if ran && ok_body {
                    r.is_success()
                } else if ran {
                    r.is_failed()
                } else {
                    r.is_cancelled() || r.is_failed()
                };
                if !good {
                    return Some((
                        "O4-fidelity".into(),
                        format!("job {} ({:?}) body ran={} but result is {}", i, k, ran, kind_of(r)),
                    ));
                }
            }
        }
    }
    // O5: stop-on-error
    if c.stop_on_error {
        // (a) a worker on which a Custom body failed never enters another body afterwards
        let mut by_seq: Vec<&BodyEvent> = log.iter().collect();
        by_seq.sort_by_key(|e| e.seq);
        let mut failed_on: std::collections::HashMap<usize, (usize, u64)> = Default::default();
        for e in &by_seq {
            if e.enter {
                if let Some((fj, fs)) = failed_on.get(&e.thread) {
                    return Some((
                        "O5a-ran-after-failure-on-same-worker".into(),
                        format!(
                            "stop_on_error set: job {} failed on worker task {} (event {}), yet job {} entered its body on the same worker afterwards (event {})",
                            fj, e.thread, fs, e.job, e.seq
                        ),
                    ));
                }
            } else if matches!(c.jobs[e.job], JobKind::Err | JobKind::Panic) {
                failed_on.entry(e.thread).or_insert((e.job, e.seq));
                *probes.entry("probe.failure_with_stop_on_error").or_insert(0) += 1;
            }
        }
        // single worker, no other source of cancellation: the first failing job always runs (all
        // jobs before it succeed), and since jobs on one worker are strictly sequential nothing
        // after it may run its operation — Custom bodies (entry logged) or built-in copies
        // (output file exists) alike.
        if c.parallelism == 1 && c.cancel == Cancel::None && !c.jobs.contains(&JobKind::CancelThenOk) {
            if let Some(b) = c.jobs.iter().position(|k| matches!(k, JobKind::Err | JobKind::Panic | JobKind::BuiltinMissing)) {
                *probes.entry("probe.failure_single_worker_stop_on_error").or_insert(0) += 1;
                for j in b + 1..n {
                    let ran = match c.jobs[j] {
                        JobKind::BuiltinCopy => copied[j],
                        JobKind::BuiltinMissing => false, // not observable
                        _ => log.iter().any(|e| e.enter && e.job == j),
                    };
                    if ran {
                        return Some((
                            if matches!(c.jobs[j], JobKind::BuiltinCopy) {
                                "O5a-builtin-ran-after-failure".into()
                            } else if c.jobs[b] == JobKind::BuiltinMissing {
                                "O5a-ran-after-builtin-failure".into()
                            } else {
                                "O5a-ran-after-failure-on-same-worker".into()
                            },
                            format!(
                                "stop_on_error set, one worker: job {} ({:?}) failed, yet job {} ({:?}) ran its operation afterwards",
                                b, c.jobs[b], j, c.jobs[j]
                            ),
                        ));
                    }
                }
            }
        }
    }
    // (b) cancellation: after some body has *seen* the flag set, a worker's second body entry is illegal
    let mut by_seq: Vec<&BodyEvent> = log.iter().filter(|e| e.enter).collect();
    by_seq.sort_by_key(|e| e.seq);
    if let Some(t) = by_seq.iter().find(|e| e.flag == Some(true)).map(|e| e.seq) {
        *probes.entry("probe.body_saw_cancel_flag").or_insert(0) += 1;
        let mut entries_after: std::collections::HashMap<usize, u32> = Default::default();
        for e in by_seq.iter().filter(|e| e.seq >= t) {
            let k = entries_after.entry(e.thread).or_insert(0);
            *k += 1;
            if *k >= 2 {
                return Some((
                    "O5b-ran-after-cancel".into(),
                    format!(
                        "cancel flag was observed set at event {}; worker task {} entered a second body (job {}) after that",
                        t, e.thread, e.job
                    ),
                ));
            }
        }
    }
    None
}

fn exec(c: &Case, out: &mut Outcome) {
    sched::prime_shuttle();
    let sched = match &c.trace {
        Some(t) => RecScheduler::replay(t.clone()),
        None => RecScheduler::new(&c.sched, c.sched_seed, c.iterations),
    };
    let sshared = sched.shared.clone();
    let shared = Arc::new(Mutex::new(Shared {
        failure: None,
        traces: Default::default(),
        steps: 0,
        probes: Default::default(),
    }));
    let case = Arc::new(c.clone());
    let (sh2, ss2) = (shared.clone(), sshared.clone());
    let end = sched::run(sched, 200_000, move || {
        let c = &*case;
        let n = c.jobs.len();
        let log: Arc<Mutex<Vec<BodyEvent>>> = Arc::new(Mutex::new(vec![]));
        let seq = Arc::new(AtomicU64::new(0));
        static EXEC_ID: AtomicU64 = AtomicU64::new(0);
        let exec_id = EXEC_ID.fetch_add(1, StdOrdering::Relaxed);
        let results: Vec<JobResult>;
        let mut summary = None;
        let mut final_progress = None;
        if c.entry == "execute" {
            let mut opts = BatchOptions::default().with_parallelism(c.parallelism).stop_on_error(c.stop_on_error);
            opts.job_timeout = if c.timeout_arm { Some(std::time::Duration::from_secs(300)) } else { None };
            let last_info: Arc<Mutex<Option<ProgressInfo>>> = Arc::new(Mutex::new(None));
            if c.progress {
                let li = last_info.clone();
                opts = opts.with_progress_callback(move |info: &ProgressInfo| {
                    *li.lock().unwrap() = Some(info.clone());
                });
            }
            let mut bp = BatchProcessor::new(opts);
            for (i, k) in c.jobs.iter().enumerate() {
                bp.add_job(make_job(i, *k, log.clone(), seq.clone(), None, exec_id));
            }
            if c.cancel == Cancel::Before {
                bp.cancel();
            }
            match bp.execute() {
                Ok(s) => {
                    summary = Some((s.total_jobs, s.successful, s.failed));
                    results = s.results;
                }
                Err(e) => {
                    let mut g = sh2.lock().unwrap();
                    if g.failure.is_none() {
                        g.failure = Some(("execute-returned-err".into(), e.to_string(), ss2.lock().unwrap().trace.clone()));
                        ss2.lock().unwrap().stop = true;
                    }
                    return;
                }
            }
            if c.progress && n > 0 {
                if let Some(i) = last_info.lock().unwrap().as_ref() {
                    final_progress = Some((i.total_jobs, i.completed_jobs, i.failed_jobs, i.running_jobs));
                }
            }
        } else {
            let flag = Arc::new(AtomicBool::new(c.cancel == Cancel::Before));
            let progress = Arc::new(BatchProgress::new());
            let mut jobs = vec![];
            for (i, k) in c.jobs.iter().enumerate() {
                progress.add_job();
                jobs.push(make_job(i, *k, log.clone(), seq.clone(), Some(flag.clone()), exec_id));
            }
            let pool = WorkerPool::new(WorkerOptions {
                num_workers: c.parallelism,
                memory_limit: 1 << 20,
                job_timeout: if c.timeout_arm { Some(std::time::Duration::from_secs(300)) } else { None },
            });
            let canceller = if c.cancel == Cancel::Canceller {
                let f = flag.clone();
                Some(shuttle::thread::spawn(move || {
                    // the scheduler decides when this task runs relative to everything else
                    f.store(true, Ordering::SeqCst);
                }))
            } else {
                None
            };
            results = pool.process_jobs(jobs, progress.clone(), flag.clone(), c.stop_on_error);
            if let Some(h) = canceller {
                let _ = h.join();
            }
            let i = progress.get_info();
            final_progress = Some((i.total_jobs, i.completed_jobs, i.failed_jobs, i.running_jobs));
        }
        let trace = ss2.lock().unwrap().trace.clone();
        let events = log.lock().unwrap().clone();
        let mut g = sh2.lock().unwrap();
        g.steps += trace.tasks.len() as u64;
        g.traces.insert(trace.hash());
        let threads_used: std::collections::HashSet<usize> = events.iter().map(|e| e.thread).collect();
        if threads_used.len() > 1 {
            *g.probes.entry("probe.bodies_on_several_workers").or_insert(0) += 1;
        }
        if results.iter().any(|r| r.is_cancelled()) {
            *g.probes.entry("probe.dispatcher_cancelled_some_job").or_insert(0) += 1;
        }
        if results.iter().any(|r| r.is_failed()) && events.iter().filter(|e| e.enter).count() < n {
            *g.probes.entry("probe.job_skipped_after_flag").or_insert(0) += 1;
        }
        let mut copied = vec![false; n];
        for (i, k) in c.jobs.iter().enumerate() {
            if *k == JobKind::BuiltinCopy {
                let p = copy_output(exec_id, i);
                copied[i] = p.exists();
                let _ = std::fs::remove_file(p);
            }
        }
        if copied.iter().any(|x| *x) {
            *g.probes.entry("probe.builtin_copy_ran").or_insert(0) += 1;
        }
        let mut probes = std::mem::take(&mut g.probes);
        let verdict = judge(c, &results, summary, final_progress, &events, &copied, &mut probes);
        g.probes = probes;
        if let Some((cl, d)) = verdict {
            if g.failure.is_none() {
                g.failure = Some((cl, d, trace));
                ss2.lock().unwrap().stop = true;
            }
        }
    });
    let g = shared.lock().unwrap();
    out.sim_steps += g.steps;
    out.states = g.traces.iter().copied().collect();
    out.bump("schedules_run", g.traces.len() as u64);
    for (k, v) in &g.probes {
        out.bump(k, *v);
    }
    out.bump("facade.isolated_panics", 0);
    out.bump("facade.channel_half_dropped_during_unwind", 0);
    out.nontrivial = c.jobs.len() >= 2 && c.parallelism >= 2;
    let mut h = fnv1a(format!("{:?}{}{}{}{:?}{}", c.jobs, c.parallelism, c.stop_on_error, c.progress, c.cancel, c.entry).as_bytes());
    h = fnv1a_more(h, &[c.timeout_arm as u8]);
    out.digest = h;
    let mut lg = 0u64;
    for t in &g.traces {
        lg ^= mix(*t, 1);
    }
    out.log_digest = lg;
    let refine = |trace: Trace, out: &mut Outcome| {
        let mut nc = c.clone();
        nc.trace = Some(trace);
        nc.iterations = 1;
        out.refined = Some(serde_json::to_value(&nc).unwrap());
    };
    match end {
        RunEnd::Completed { .. } => {
            if let Some((cl, d, tr)) = g.failure.clone() {
                out.violate(&cl, d);
                refine(tr, out);
            }
        }
        RunEnd::EnginePanic { message, trace, .. } => {
            let base = sched::classify_engine_panic(&message);
            let class = if c.jobs.contains(&JobKind::Panic) && base != "engine-panic" {
                format!("O6-{}-after-job-panic", base)
            } else {
                format!("O6-{}", base)
            };
            out.violate(&class, message.chars().take(600).collect());
            refine(trace, out);
            out.bump("fatal", 1);
        }
        RunEnd::ReplayDiverged => out.bump("replay_diverged", 1),
    }
}

impl Property for C22 {
    fn id(&self) -> &'static str {
        "C22"
    }
    fn engine(&self) -> Engine {
        Engine::Sched
    }
    fn cases(&self, tier: Tier) -> u64 {
        match tier {
            Tier::Quick => 6_000,
            Tier::Thorough => 60_000,
        }
    }
    fn gen(&self, cs: u64, tier: Tier, _ctx: &ExecCtx) -> Value {
        serde_json::to_value(gen_case(cs, tier)).unwrap()
    }
    fn exec(&self, case: &Value, _ctx: &ExecCtx) -> Outcome {
        let mut out = Outcome::default();
        let c: Case = match serde_json::from_value(case.clone()) {
            Ok(c) => c,
            Err(e) => {
                out.violate("harness-bad-case", e.to_string());
                return out;
            }
        };
        let p0 = verif_shim::ISOLATED_PANICS.load(StdOrdering::Relaxed);
        let d0 = verif_shim::DEFERRED_DROPS.load(StdOrdering::Relaxed);
        exec(&c, &mut out);
        if c.jobs.contains(&JobKind::BuiltinCopy) {
            cleanup_scratch_outputs_only();
        }
        out.bump("facade.isolated_panics", (verif_shim::ISOLATED_PANICS.load(StdOrdering::Relaxed) - p0) as u64);
        out.bump(
            "facade.channel_half_dropped_during_unwind",
            (verif_shim::DEFERRED_DROPS.load(StdOrdering::Relaxed) - d0) as u64,
        );
        out.bump(&format!("entry.{}", c.entry), 1);
        out.bump(&format!("cancel.{:?}", c.cancel), 1);
        if c.progress {
            out.bump("with_progress_poller", 1);
        }
        for k in &c.jobs {
            out.bump(&format!("fault.job_{:?}", k), 1);
        }
        out
    }
    fn shrink(&self, case: &Value) -> Vec<Value> {
        let c: Case = match serde_json::from_value(case.clone()) {
            Ok(c) => c,
            Err(_) => return vec![],
        };
        let searching = |mut n: Case| {
            n.trace = None;
            n.iterations = 2000;
            n.sched = SchedKind::Random;
            serde_json::to_value(&n).unwrap()
        };
        let mut v = vec![];
        for i in 0..c.jobs.len() {
            let mut n = c.clone();
            n.jobs.remove(i);
            v.push(searching(n));
        }
        if c.parallelism > 1 {
            let mut n = c.clone();
            n.parallelism -= 1;
            v.push(searching(n));
        }
        for i in 0..c.jobs.len() {
            if c.jobs[i] != JobKind::Ok {
                let mut n = c.clone();
                n.jobs[i] = JobKind::Ok;
                v.push(searching(n));
            }
        }
        if c.progress {
            let mut n = c.clone();
            n.progress = false;
            v.push(searching(n));
        }
        if c.cancel != Cancel::None {
            let mut n = c.clone();
            n.cancel = Cancel::None;
            v.push(searching(n));
        }
        if c.stop_on_error {
            let mut n = c.clone();
            n.stop_on_error = false;
            v.push(searching(n));
        }
        v
    }
    fn describe(&self) -> Describe {
        Describe {
            rule: "case = seeded scenario (0-6 jobs with outcome vector over {Ok, Err, Panic, CancelThenOk, BuiltinMissing}, parallelism 1-4, stop_on_error, progress poller, cancel None/Before/Canceller-task, entry BatchProcessor::execute or WorkerPool::process_jobs) x N seeded schedules (random; PCT depth 2-3 when no spin-waiting poller). Oracles per schedule: O1 one result per job in submission order, O2 summary counts, O3 final progress counters, O4 result fidelity vs. what the body did, O5 stop-on-error/cancel (same-worker ordering only), O6 no deadlock and completion within 200k scheduler steps. non-trivial = >=2 jobs and >=2 workers; distinct = digest of the scenario. distinct_states_or_interleavings = distinct recorded schedules.".into(),
            assumptions: vec![
                "shuttle models Mutex/mpsc/atomics as sequentially consistent; thread::sleep is a context switch (no time)".into(),
                "verif_shim restores std semantics shuttle lacks: panic isolation per thread and channel hang-up on drop during unwinding".into(),
                "job bodies are harness closures; built-in job kinds are only exercised on a missing input".into(),
            ],
            real_components: vec!["batch::BatchProcessor::execute".into(), "batch::worker::WorkerPool/Worker".into(), "batch::BatchProgress".into(), "result collector, dispatcher, progress poller threads".into()],
            stub_components: vec!["job bodies (BatchJob::Custom closures)".into(), "std::sync/std::thread replaced by shuttle through verif_shim".into(), "Instant in JobResult.duration (real, never compared)".into()],
            fault_kinds: vec!["job returns Err".into(), "job panics".into(), "cancel before start".into(), "cancel from inside a job".into(), "cancel from a concurrent task".into(), "built-in job on missing input".into(), "schedule: seeded random".into(), "schedule: PCT".into()],
            level: "exploration",
            exhaustive_note: None,
        }
    }
}
