//! Seam S8: tracking global allocator. One case runs at a time per worker process, so the
//! process-wide counters are attributable to the current case.

use std::alloc::{GlobalAlloc, Layout, System};
use std::sync::atomic::{AtomicBool, AtomicUsize, Ordering};

pub struct Tracking;

static LIVE: AtomicUsize = AtomicUsize::new(0);
static PEAK: AtomicUsize = AtomicUsize::new(0);
static LARGEST: AtomicUsize = AtomicUsize::new(0);
static COUNT: AtomicUsize = AtomicUsize::new(0);
static ARMED: AtomicBool = AtomicBool::new(false);

/// A single request above this is refused (null => `handle_alloc_error` => abort, attributed
/// by the parent to the case in flight).
pub const SINGLE_CEILING: usize = 1 << 30; // 1 GiB
/// Live heap above this is refused.
pub const LIVE_CEILING: usize = 2 << 30; // 2 GiB

fn refuse(kind: &[u8], size: usize) {
    // async-signal-safe breadcrumb for the parent: "X alloc_refused <kind> <size>\n" on fd 1
    let mut buf = [0u8; 64];
    let mut n = 0;
    for b in b"\nX alloc_refused " {
        buf[n] = *b;
        n += 1;
    }
    for b in kind {
        buf[n] = *b;
        n += 1;
    }
    buf[n] = b' ';
    n += 1;
    let mut digits = [0u8; 20];
    let mut d = 0;
    let mut s = size;
    if s == 0 {
        digits[0] = b'0';
        d = 1;
    }
    while s > 0 {
        digits[d] = b'0' + (s % 10) as u8;
        s /= 10;
        d += 1;
    }
    while d > 0 {
        d -= 1;
        buf[n] = digits[d];
        n += 1;
    }
    buf[n] = b'\n';
    n += 1;
    unsafe {
        libc::write(1, buf.as_ptr() as *const libc::c_void, n);
    }
}

unsafe impl GlobalAlloc for Tracking {
    unsafe fn alloc(&self, layout: Layout) -> *mut u8 {
        let size = layout.size();
        if ARMED.load(Ordering::Relaxed) {
            if size > SINGLE_CEILING {
                refuse(b"single", size);
                return std::ptr::null_mut();
            }
            if LIVE.load(Ordering::Relaxed).saturating_add(size) > LIVE_CEILING {
                refuse(b"live", size);
                return std::ptr::null_mut();
            }
        }
        let p = System.alloc(layout);
        if !p.is_null() {
            note_alloc(size);
        }
        p
    }
    unsafe fn alloc_zeroed(&self, layout: Layout) -> *mut u8 {
        let size = layout.size();
        if ARMED.load(Ordering::Relaxed) {
            if size > SINGLE_CEILING {
                refuse(b"single", size);
                return std::ptr::null_mut();
            }
            if LIVE.load(Ordering::Relaxed).saturating_add(size) > LIVE_CEILING {
                refuse(b"live", size);
                return std::ptr::null_mut();
            }
        }
        let p = System.alloc_zeroed(layout);
        if !p.is_null() {
            note_alloc(size);
        }
        p
    }
    unsafe fn dealloc(&self, ptr: *mut u8, layout: Layout) {
        LIVE.fetch_sub(layout.size(), Ordering::Relaxed);
        System.dealloc(ptr, layout)
    }
    unsafe fn realloc(&self, ptr: *mut u8, layout: Layout, new_size: usize) -> *mut u8 {
        if ARMED.load(Ordering::Relaxed) {
            if new_size > SINGLE_CEILING {
                refuse(b"single", new_size);
                return std::ptr::null_mut();
            }
            if new_size > layout.size()
                && LIVE.load(Ordering::Relaxed).saturating_add(new_size - layout.size()) > LIVE_CEILING
            {
                refuse(b"live", new_size);
                return std::ptr::null_mut();
            }
        }
        let p = System.realloc(ptr, layout, new_size);
        if !p.is_null() {
            LIVE.fetch_sub(layout.size(), Ordering::Relaxed);
            note_alloc(new_size);
        }
        p
    }
}

#[inline]
fn note_alloc(size: usize) {
    let live = LIVE.fetch_add(size, Ordering::Relaxed) + size;
    PEAK.fetch_max(live, Ordering::Relaxed);
    LARGEST.fetch_max(size, Ordering::Relaxed);
    COUNT.fetch_add(1, Ordering::Relaxed);
}

#[derive(Clone, Copy, Debug, Default)]
pub struct AllocStats {
    pub peak_over_baseline: usize,
    pub largest: usize,
    pub count: usize,
}

/// Reset the per-case counters; returns the live baseline.
pub fn begin_case() -> usize {
    let live = LIVE.load(Ordering::Relaxed);
    PEAK.store(live, Ordering::Relaxed);
    LARGEST.store(0, Ordering::Relaxed);
    COUNT.store(0, Ordering::Relaxed);
    ARMED.store(true, Ordering::Relaxed);
    live
}

pub fn end_case(baseline: usize) -> AllocStats {
    ARMED.store(false, Ordering::Relaxed);
    AllocStats {
        peak_over_baseline: PEAK.load(Ordering::Relaxed).saturating_sub(baseline),
        largest: LARGEST.load(Ordering::Relaxed),
        count: COUNT.load(Ordering::Relaxed),
    }
}
