//! Bindings to libsim.so (seams S4 entropy, S5 clocks, S6 pid), looked up at run time so the
//! binary also runs without the preload (shuttle engine, parent process).

use std::ffi::CString;

#[derive(Clone, Copy)]
pub struct SimSeam {
    enable: unsafe extern "C" fn(i32),
    reseed: unsafe extern "C" fn(u64),
    entropy_mode: unsafe extern "C" fn(i32),
    entropy_bytes: unsafe extern "C" fn() -> u64,
    clock_set: unsafe extern "C" fn(i64, i64, u64, i64),
    clock_calls: unsafe extern "C" fn() -> u64,
    clock_jumps: unsafe extern "C" fn() -> u64,
    clock_elapsed_ns: unsafe extern "C" fn() -> i64,
}

pub const CLOCK_BASE_NS: i64 = 1_700_000_000i64 * 1_000_000_000;

#[derive(Clone, Debug, serde::Serialize, serde::Deserialize, PartialEq)]
pub struct ProcEnv {
    pub entropy_seed: u64,
    /// 0 seeded, 1 all-zero, 2 all-0xFF
    pub entropy_mode: i32,
    /// clock advance per read, ns (0 = fixed clock)
    pub clock_step_ns: i64,
    /// n-th clock read (1-based) at which the clock jumps; 0 = never
    pub clock_jump_at: u64,
    pub clock_jump_ns: i64,
}

impl ProcEnv {
    pub fn fixed(seed: u64) -> Self {
        ProcEnv {
            entropy_seed: seed,
            entropy_mode: 0,
            clock_step_ns: 0,
            clock_jump_at: 0,
            clock_jump_ns: 0,
        }
    }
}

unsafe fn sym<T: Copy>(name: &str) -> Option<T> {
    let c = CString::new(name).ok()?;
    let p = libc::dlsym(libc::RTLD_DEFAULT, c.as_ptr());
    if p.is_null() {
        None
    } else {
        Some(std::mem::transmute_copy::<*mut libc::c_void, T>(&p))
    }
}

impl SimSeam {
    pub fn load() -> Option<SimSeam> {
        unsafe {
            Some(SimSeam {
                enable: sym("verif_sim_enable")?,
                reseed: sym("verif_sim_reseed")?,
                entropy_mode: sym("verif_sim_entropy_mode")?,
                entropy_bytes: sym("verif_sim_entropy_bytes")?,
                clock_set: sym("verif_sim_clock_set")?,
                clock_calls: sym("verif_sim_clock_calls")?,
                clock_jumps: sym("verif_sim_clock_jumps")?,
                clock_elapsed_ns: sym("verif_sim_clock_elapsed_ns")?,
            })
        }
    }
    /// Install a process environment and switch the seams on. Call from the controlling thread
    /// *before* spawning the fresh case thread.
    pub fn install(&self, env: &ProcEnv) {
        unsafe {
            (self.reseed)(env.entropy_seed);
            (self.entropy_mode)(env.entropy_mode);
            (self.clock_set)(CLOCK_BASE_NS, env.clock_step_ns, env.clock_jump_at, env.clock_jump_ns);
            (self.enable)(1);
        }
    }
    pub fn disable(&self) {
        unsafe { (self.enable)(0) }
    }
    pub fn entropy_bytes(&self) -> u64 {
        unsafe { (self.entropy_bytes)() }
    }
    pub fn clock_calls(&self) -> u64 {
        unsafe { (self.clock_calls)() }
    }
    pub fn clock_jumps(&self) -> u64 {
        unsafe { (self.clock_jumps)() }
    }
    pub fn clock_elapsed_ns(&self) -> i64 {
        unsafe { (self.clock_elapsed_ns)() }
    }
}

/// Seam self-test (exit 2 on failure): with the seams on, (a) two fresh threads given the same
/// entropy seed see the same HashMap iteration order and different seeds see different orders,
/// (b) SystemTime and Instant read the simulated clock.
pub fn selftest(seam: &SimSeam) -> Result<(), String> {
    fn order(seam: SimSeam, seed: u64) -> Vec<u32> {
        seam.install(&ProcEnv::fixed(seed));
        let h = std::thread::spawn(|| {
            let mut m = std::collections::HashMap::new();
            for i in 0..64u32 {
                m.insert(i, ());
            }
            m.keys().copied().collect::<Vec<_>>()
        });
        let r = h.join().unwrap();
        seam.disable();
        r
    }
    let a = order(*seam, 1);
    let b = order(*seam, 1);
    let c = order(*seam, 2);
    if a != b {
        return Err("same entropy seed gave different HashMap orders (S4 ineffective)".into());
    }
    if a == c {
        return Err("different entropy seeds gave the same HashMap order (S4 ineffective)".into());
    }
    let mut env = ProcEnv::fixed(3);
    env.clock_step_ns = 1_000;
    seam.install(&env);
    let h = std::thread::spawn(|| {
        let t0 = std::time::Instant::now();
        let s = std::time::SystemTime::now()
            .duration_since(std::time::UNIX_EPOCH)
            .map(|d| d.as_secs())
            .unwrap_or(0);
        let e = t0.elapsed().as_nanos();
        (s, e)
    });
    let (s, e) = h.join().unwrap();
    seam.disable();
    if s != 1_700_000_000 {
        return Err(format!("SystemTime not simulated: {} (S5 ineffective)", s));
    }
    if e == 0 || e > 1_000_000 {
        return Err(format!("Instant not simulated: elapsed {} ns (S5 ineffective)", e));
    }
    if std::process::id() != 4242 {
        // getpid is only faked while enabled; check under enable
        seam.install(&ProcEnv::fixed(4));
        let p = unsafe { libc::getpid() };
        seam.disable();
        if p != 4242 {
            return Err(format!("getpid not simulated: {} (S6 ineffective)", p));
        }
    }
    Ok(())
}
