//! Engine B: shuttle under a seeded, recording scheduler. One (scenario, scheduler seed) is one
//! exactly repeatable execution; the recorded schedule (task ids + random draws) is what goes in
//! the replay file, and `Replay` follows it literally.

use crate::common::Rng;
use serde::{Deserialize, Serialize};
use shuttle::scheduler::{PctScheduler, Schedule, Scheduler, Task, TaskId};
use std::sync::{Arc, Mutex};

#[derive(Clone, Debug, Default, Serialize, Deserialize, PartialEq)]
pub struct Trace {
    /// task chosen at each scheduling point
    pub tasks: Vec<u32>,
    /// values handed to `shuttle::rand`
    pub randoms: Vec<u64>,
}

impl Trace {
    pub fn hash(&self) -> u64 {
        let mut h = crate::common::fnv1a(&[]);
        for t in &self.tasks {
            h = crate::common::fnv1a_more(h, &t.to_le_bytes());
        }
        for r in &self.randoms {
            h = crate::common::fnv1a_more(h, &r.to_le_bytes());
        }
        h
    }
}

#[derive(Clone, Debug, Serialize, Deserialize, PartialEq)]
pub enum SchedKind {
    Random,
    Pct(usize),
}

enum Mode {
    Random(Rng),
    Pct(PctScheduler),
    Replay { trace: Trace, ti: usize, ri: usize },
}

pub struct Shared {
    pub trace: Trace,
    pub stop: bool,
    pub executions: u64,
    pub replay_diverged: bool,
}

pub struct RecScheduler {
    mode: Mode,
    iterations: usize,
    done: usize,
    pub shared: Arc<Mutex<Shared>>,
}

impl RecScheduler {
    pub fn new(kind: &SchedKind, seed: u64, iterations: usize) -> Self {
        let mode = match kind {
            SchedKind::Random => Mode::Random(Rng::new(seed)),
            SchedKind::Pct(d) => Mode::Pct(PctScheduler::new_from_seed(seed, *d, iterations)),
        };
        Self::with(mode, iterations)
    }
    pub fn replay(trace: Trace) -> Self {
        Self::with(Mode::Replay { trace, ti: 0, ri: 0 }, 1)
    }
    fn with(mode: Mode, iterations: usize) -> Self {
        RecScheduler {
            mode,
            iterations,
            done: 0,
            shared: Arc::new(Mutex::new(Shared {
                trace: Trace::default(),
                stop: false,
                executions: 0,
                replay_diverged: false,
            })),
        }
    }
}

impl Scheduler for RecScheduler {
    fn new_execution(&mut self) -> Option<Schedule> {
        {
            let mut s = self.shared.lock().unwrap();
            if s.stop || self.done >= self.iterations {
                return None;
            }
            s.trace = Trace::default();
            s.executions += 1;
        }
        self.done += 1;
        match &mut self.mode {
            Mode::Random(_) => Some(Schedule::new(0)),
            Mode::Pct(p) => p.new_execution(),
            Mode::Replay { ti, ri, .. } => {
                *ti = 0;
                *ri = 0;
                Some(Schedule::new(0))
            }
        }
    }

    fn next_task(&mut self, runnable: &[&Task], current: Option<TaskId>, is_yielding: bool) -> Option<TaskId> {
        let choice = match &mut self.mode {
            Mode::Random(r) => Some(runnable[r.usize_below(runnable.len())].id()),
            Mode::Pct(p) => p.next_task(runnable, current, is_yielding),
            Mode::Replay { trace, ti, .. } => {
                if *ti < trace.tasks.len() {
                    let want = trace.tasks[*ti] as usize;
                    *ti += 1;
                    match runnable.iter().find(|t| usize::from(t.id()) == want) {
                        Some(t) => Some(t.id()),
                        None => {
                            self.shared.lock().unwrap().replay_diverged = true;
                            None
                        }
                    }
                } else {
                    // past the recorded prefix (shrunk traces): continue deterministically
                    Some(runnable[0].id())
                }
            }
        };
        if let Some(t) = choice {
            self.shared.lock().unwrap().trace.tasks.push(usize::from(t) as u32);
        }
        choice
    }

    fn next_u64(&mut self) -> u64 {
        let v = match &mut self.mode {
            Mode::Random(r) => r.next_u64(),
            Mode::Pct(p) => p.next_u64(),
            Mode::Replay { trace, ri, .. } => {
                let v = trace.randoms.get(*ri).copied().unwrap_or(0);
                *ri += 1;
                v
            }
        };
        self.shared.lock().unwrap().trace.randoms.push(v);
        v
    }
}

pub enum RunEnd {
    /// all iterations ran to completion (or stopped because the scenario flagged a failure)
    Completed { executions: u64 },
    /// shuttle itself panicked: deadlock, step budget, or a panic escaping a task
    EnginePanic { message: String, trace: Trace, executions: u64 },
    ReplayDiverged,
}

pub fn max_steps_config(steps: usize) -> shuttle::Config {
    let mut cfg = shuttle::Config::new();
    cfg.max_steps = shuttle::MaxSteps::FailAfter(steps);
    cfg.failure_persistence = shuttle::FailurePersistence::None;
    cfg.silence_warnings = true;
    cfg.stack_size = 0x20000;
    cfg
}

/// Make shuttle install its process-wide panic hook (it does so once, on first use), then replace
/// it by ours, so that caught, intended job panics do not print or persist anything.
pub fn prime_shuttle() {
    static ONCE: std::sync::Once = std::sync::Once::new();
    ONCE.call_once(prime_shuttle_inner);
}

fn prime_shuttle_inner() {
    let s = RecScheduler::new(&SchedKind::Random, 1, 1);
    let r = shuttle::Runner::new(s, max_steps_config(1000));
    r.run(|| {});
    crate::runner::install_panic_hook();
}

/// Run `f` under `sched`. `f` must not panic for oracle failures (it records them itself and sets
/// `shared.stop`); a panic reaching here is shuttle's own verdict (deadlock / step budget).
pub fn run<F>(sched: RecScheduler, steps: usize, f: F) -> RunEnd
where
    F: Fn() + Send + Sync + 'static,
{
    let shared = sched.shared.clone();
    let runner = shuttle::Runner::new(sched, max_steps_config(steps));
    let r = std::panic::catch_unwind(std::panic::AssertUnwindSafe(|| runner.run(f)));
    let s = shared.lock().unwrap();
    if s.replay_diverged {
        return RunEnd::ReplayDiverged;
    }
    match r {
        Ok(_) => RunEnd::Completed { executions: s.executions },
        Err(p) => {
            let message = if let Some(m) = p.downcast_ref::<&str>() {
                m.to_string()
            } else if let Some(m) = p.downcast_ref::<String>() {
                m.clone()
            } else {
                let lp = crate::runner::take_last_panic();
                if lp.is_empty() { "<panic>".into() } else { lp }
            };
            RunEnd::EnginePanic { message, trace: s.trace.clone(), executions: s.executions }
        }
    }
}

pub fn classify_engine_panic(msg: &str) -> &'static str {
    let m = msg.to_ascii_lowercase();
    if m.contains("deadlock") {
        "deadlock"
    } else if m.contains("exceeded max_steps") || m.contains("max_steps") || m.contains("steps bound") {
        "no-progress-within-step-budget"
    } else {
        "engine-panic"
    }
}
