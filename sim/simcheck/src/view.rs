//! A "document view": everything C02 / C05 / C17 compare between two readings of a document —
//! page count, boxes, rotation, decoded content bytes, extracted text, images, annotation
//! contents, info strings, form-field values, outline titles. Built once through the library's
//! reader and (for the parts it can see) once through the independent reader.

use crate::common::*;
use crate::refpdf::{Obj, RefDoc};
use oxidize_pdf::parser::objects::{PdfDictionary, PdfObject};
use oxidize_pdf::parser::PdfReader;
use std::io::{Read, Seek};

#[derive(Clone, Debug, PartialEq, Default)]
pub struct PageView {
    pub media_box: [i64; 4],
    pub rotation: i64,
    pub content: Vec<u8>,
    pub text: String,
    pub annots: Vec<Vec<u8>>,
    /// (resource name, width, height, colour space, bits, digest of decoded samples)
    pub images: Vec<(String, i64, i64, String, i64, u64)>,
}

#[derive(Clone, Debug, PartialEq, Default)]
pub struct DocView {
    pub pages: Vec<PageView>,
    pub info: Vec<(String, Vec<u8>)>,
    pub fields: Vec<(Vec<u8>, Vec<u8>)>,
    pub outline: Vec<Vec<u8>>,
}

fn milli(x: f64) -> i64 {
    (x * 1000.0).round() as i64
}

impl DocView {
    /// First difference between two views, as text.
    pub fn diff(&self, other: &DocView, what: (&str, &str)) -> Option<(String, String)> {
        if self.pages.len() != other.pages.len() {
            return Some(("page-count".into(), format!("{} has {} pages, {} has {}", what.0, self.pages.len(), what.1, other.pages.len())));
        }
        for (i, (a, b)) in self.pages.iter().zip(other.pages.iter()).enumerate() {
            if a.media_box != b.media_box {
                return Some(("page-box".into(), format!("page {}: MediaBox {:?} ({}) vs {:?} ({})", i, a.media_box, what.0, b.media_box, what.1)));
            }
            if a.rotation != b.rotation {
                return Some(("rotation".into(), format!("page {}: rotation {} ({}) vs {} ({})", i, a.rotation, what.0, b.rotation, what.1)));
            }
            if a.content != b.content {
                let n = a.content.len().min(b.content.len());
                let p = (0..n).find(|&k| a.content[k] != b.content[k]).unwrap_or(n);
                let ctx = |x: &[u8]| String::from_utf8_lossy(&x[p.saturating_sub(30)..(p + 30).min(x.len())]).replace('\n', "\\n");
                return Some((
                    "content".into(),
                    format!("page {}: content streams differ at byte {} ({} bytes in {}, {} in {}): …{}… vs …{}…", i, p, a.content.len(), what.0, b.content.len(), what.1, ctx(&a.content), ctx(&b.content)),
                ));
            }
            if a.text != b.text {
                return Some(("text".into(), format!("page {}: extracted text {:?} ({}) vs {:?} ({})", i, a.text, what.0, b.text, what.1)));
            }
            if a.images != b.images {
                return Some(("image".into(), format!("page {}: images {:?} ({}) vs {:?} ({})", i, a.images, what.0, b.images, what.1)));
            }
            if a.annots != b.annots {
                return Some(("annotation".into(), format!("page {}: annotation contents {:?} ({}) vs {:?} ({})", i, a.annots, what.0, b.annots, what.1)));
            }
        }
        if self.info != other.info {
            return Some(("metadata".into(), format!("info strings {:?} ({}) vs {:?} ({})", lossy(&self.info), what.0, lossy(&other.info), what.1)));
        }
        if self.fields != other.fields {
            return Some(("field".into(), format!("form fields differ: {} ({}) vs {} ({})", self.fields.len(), what.0, other.fields.len(), what.1)));
        }
        if self.outline != other.outline {
            return Some(("outline".into(), format!("outline titles {:?} ({}) vs {:?} ({})", self.outline.len(), what.0, other.outline.len(), what.1)));
        }
        None
    }
    pub fn digest(&self) -> u64 {
        let mut h = fnv1a(b"view");
        for p in &self.pages {
            h = fnv1a_more(h, &p.content);
            h = fnv1a_more(h, p.text.as_bytes());
            h = fnv1a_more(h, format!("{:?}{}{:?}", p.media_box, p.rotation, p.images).as_bytes());
        }
        h = fnv1a_more(h, format!("{:?}{:?}{:?}", self.info, self.fields, self.outline).as_bytes());
        h
    }
}

fn lossy(v: &[(String, Vec<u8>)]) -> Vec<(String, String)> {
    v.iter().map(|(k, b)| (k.clone(), String::from_utf8_lossy(b).to_string())).collect()
}

const INFO_KEYS: [&str; 6] = ["Title", "Author", "Subject", "Keywords", "Creator", "Producer"];

/// The view as the library's reader (already unlocked if need be) sees the document.
pub fn library_view<R: Read + Seek>(mut rd: PdfReader<R>) -> Result<DocView, String> {
    let mut v = DocView::default();
    if let Ok(Some(info)) = rd.info() {
        let info = info.clone();
        for k in INFO_KEYS {
            if let Some(PdfObject::String(s)) = info.get(k) {
                v.info.push((k.to_string(), s.as_bytes().to_vec()));
            }
        }
    }
    let catalog: PdfDictionary = rd.catalog().map_err(|e| format!("catalog: {}", e))?.clone();
    let doc = rd.into_document();
    let n = doc.page_count().map_err(|e| format!("page_count: {}", e))?;
    let res = |o: &PdfObject| doc.resolve(o).unwrap_or(PdfObject::Null);
    for i in 0..n {
        let page = doc.get_page(i).map_err(|e| format!("get_page({}): {}", i, e))?;
        let mut pv = PageView { media_box: [milli(page.media_box[0]), milli(page.media_box[1]), milli(page.media_box[2]), milli(page.media_box[3])], rotation: page.rotation as i64, ..Default::default() };
        let streams = doc.get_page_content_streams(&page).map_err(|e| format!("content streams of page {}: {}", i, e))?;
        for (k, s) in streams.iter().enumerate() {
            if k > 0 {
                pv.content.push(b'\n');
            }
            pv.content.extend_from_slice(s);
        }
        pv.text = doc.extract_text_from_page(i).map(|t| t.text).map_err(|e| format!("extract_text_from_page({}): {}", i, e))?;
        if let Ok(Some(resources)) = doc.get_page_resources(&page) {
            if let Some(xo) = resources.get("XObject").map(&res) {
                if let Some(d) = xo.as_dict() {
                    let mut names: Vec<&String> = d.0.keys().map(|k| &k.0).collect();
                    names.sort();
                    for name in names {
                        if let PdfObject::Stream(s) = res(d.get(name).unwrap()) {
                            if s.dict.get("Subtype").and_then(|x| x.as_name()).map(|n| n.as_str() == "Image").unwrap_or(false) {
                                let data = doc.decode_stream(&s).map_err(|e| format!("decode image {} on page {}: {}", name, i, e))?;
                                let int = |k: &str| s.dict.get(k).map(&res).and_then(|x| x.as_integer()).unwrap_or(-1);
                                let cs = s.dict.get("ColorSpace").map(&res).map(|x| crate::disk::rendered(&x)).unwrap_or_default();
                                pv.images.push((name.clone(), int("Width"), int("Height"), cs, int("BitsPerComponent"), fnv1a(&data)));
                            }
                        }
                    }
                }
            }
        }
        if let Ok(annots) = doc.get_page_annotations(i) {
            for a in annots {
                if let Some(PdfObject::String(s)) = a.get("Contents").map(&res) {
                    pv.annots.push(s.as_bytes().to_vec());
                }
            }
        }
        v.pages.push(pv);
    }
    // AcroForm fields (one level of /Kids)
    if let Some(af) = catalog.get("AcroForm").map(&res) {
        if let Some(fields) = af.as_dict().and_then(|d| d.get("Fields")).map(&res) {
            if let Some(arr) = fields.as_array() {
                for k in 0..arr.len() {
                    if let Some(fd) = arr.get(k).map(&res) {
                        if let Some(d) = fd.as_dict() {
                            let t = match d.get("T").map(&res) {
                                Some(PdfObject::String(s)) => s.as_bytes().to_vec(),
                                _ => vec![],
                            };
                            let val = match d.get("V").map(&res) {
                                Some(PdfObject::String(s)) => s.as_bytes().to_vec(),
                                Some(PdfObject::Name(n)) => n.as_str().as_bytes().to_vec(),
                                _ => vec![],
                            };
                            v.fields.push((t, val));
                        }
                    }
                }
            }
        }
    }
    v.fields.sort();
    // outline: /First then /Next
    if let Some(ol) = catalog.get("Outlines").map(&res) {
        let mut cur = ol.as_dict().and_then(|d| d.get("First")).map(&res);
        let mut guard = 0;
        while let Some(PdfObject::Dictionary(d)) = cur {
            if let Some(PdfObject::String(s)) = d.get("Title").map(&res) {
                v.outline.push(s.as_bytes().to_vec());
            }
            cur = d.get("Next").map(&res);
            guard += 1;
            if guard > 200 {
                break;
            }
        }
    }
    Ok(v)
}

/// The parts of the view the independent reader can produce for an unencrypted file: page count,
/// boxes, rotation, decoded content bytes, image streams.
pub fn independent_view(bytes: &[u8]) -> Result<DocView, String> {
    let d = RefDoc::open(bytes)?;
    let mut v = DocView::default();
    for (i, p) in d.pages().iter().enumerate() {
        if let Some(e) = &p.content_err {
            return Err(format!("independent reader cannot decode the content of page {}: {}", i, e));
        }
        let mb = p.media_box.ok_or_else(|| format!("page {} has no MediaBox", i))?;
        let mut pv = PageView { media_box: [milli(mb[0]), milli(mb[1]), milli(mb[2]), milli(mb[3])], rotation: p.rotate, content: p.content.clone(), ..Default::default() };
        let resources = d.resolve(p.dict.get("Resources").unwrap_or(&Obj::Null));
        if let Obj::Dict(x) = d.resolve(resources.get("XObject").unwrap_or(&Obj::Null)) {
            let mut entries = x.clone();
            entries.sort_by(|a, b| a.0.cmp(&b.0));
            for (name, o) in entries {
                let s = d.resolve(&o);
                if s.get("Subtype").and_then(|x| x.as_name()) == Some("Image") {
                    let data = d.stream_data(&s).map_err(|e| format!("independent reader: image {} on page {}: {}", name, i, e))?;
                    let int = |k: &str| s.get(k).map(|x| d.resolve(x)).and_then(|x| x.as_int()).unwrap_or(-1);
                    pv.images.push((name.clone(), int("Width"), int("Height"), String::new(), int("BitsPerComponent"), fnv1a(&data)));
                }
            }
        }
        v.pages.push(pv);
    }
    Ok(v)
}
