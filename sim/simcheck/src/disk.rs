//! Helpers shared by the disk-engine properties: running library code on a fresh case thread under
//! an owned process environment, presets, object digests.

use crate::common::*;
use crate::runner::*;
use crate::simseam::ProcEnv;
use oxidize_pdf::parser::objects::{PdfDictionary, PdfObject};
use oxidize_pdf::parser::ParseOptions;

pub const PRESETS: [&str; 4] = ["strict", "default", "tolerant", "skip_errors"];

pub fn preset(name: &str) -> ParseOptions {
    match name {
        "strict" => ParseOptions::strict(),
        "tolerant" | "lenient" => ParseOptions::tolerant(),
        "skip_errors" => ParseOptions::skip_errors(),
        _ => {
            // what PdfReader::new / PdfReader::open use
            let mut o = ParseOptions::default();
            o.lenient_streams = true;
            o
        }
    }
}

/// Run `f` on a fresh case thread under `env`; panics, hangs become violations of `out`.
pub fn in_case_thread(
    ctx: &ExecCtx,
    env: &ProcEnv,
    cpu_limit_ms: u64,
    f: impl FnOnce(&mut Outcome) + Send + 'static,
) -> Outcome {
    let r = run_case_thread(ctx.seam.as_ref(), env, cpu_limit_ms, move || {
        let mut o = Outcome::default();
        f(&mut o);
        o
    });
    match r {
        ThreadResult::Done(mut o, st) => {
            note_stats(&mut o, &st);
            o
        }
        ThreadResult::Panicked(msg, st) => {
            let mut o = Outcome::default();
            note_stats(&mut o, &st);
            o.violate(&panic_class(&msg), format!("panic: {}", msg));
            o
        }
        ThreadResult::Hung(st) => {
            let mut o = Outcome::default();
            note_stats(&mut o, &st);
            o.violate("hang", format!("case still running after {} ms of CPU time", st.cpu_ms));
            o.bump("fatal", 1);
            o
        }
    }
}

/// Stable class for a panic: keyed by source location so different panics stay different findings.
pub fn panic_class(msg: &str) -> String {
    let loc = msg.rsplit(" @ ").next().unwrap_or("");
    let file = loc.rsplit('/').next().unwrap_or(loc);
    format!("panic@{}", file)
}

pub fn note_stats(o: &mut Outcome, st: &ThreadStats) {
    o.sim_ns += st.sim_elapsed_ns.max(0) as u64;
    o.bump("clock_reads", st.clock_calls);
    o.bump("fault.clock_jump", st.clock_jumps);
    o.bump("entropy_bytes_drawn", st.entropy_bytes);
    let peak = o.counters.get("max.alloc_peak_bytes").copied().unwrap_or(0).max(st.alloc_peak as u64);
    o.counters.insert("max.alloc_peak_bytes".into(), peak);
    let lg = o.counters.get("max.alloc_single_bytes").copied().unwrap_or(0).max(st.alloc_largest as u64);
    o.counters.insert("max.alloc_single_bytes".into(), lg);
}

/// Canonical, order-independent rendering of a parsed object (dictionary keys sorted), used to
/// compare what two runs returned.
pub fn render(o: &PdfObject, out: &mut String) {
    match o {
        PdfObject::Null => out.push_str("null"),
        PdfObject::Boolean(b) => out.push_str(if *b { "true" } else { "false" }),
        PdfObject::Integer(i) => out.push_str(&i.to_string()),
        PdfObject::Real(r) => out.push_str(&format!("{:?}", r)),
        PdfObject::String(s) => {
            out.push('(');
            out.push_str(&hex(s.as_bytes()));
            out.push(')');
        }
        PdfObject::Name(n) => {
            out.push('/');
            out.push_str(n.as_str());
        }
        PdfObject::Array(a) => {
            out.push('[');
            for i in 0..a.len() {
                if let Some(x) = a.get(i) {
                    render(x, out);
                    out.push(' ');
                }
            }
            out.push(']');
        }
        PdfObject::Dictionary(d) => render_dict(d, out),
        PdfObject::Stream(s) => {
            render_dict(&s.dict, out);
            out.push_str(&format!("stream[{}:{:016x}]", s.raw_data().len(), fnv1a(s.raw_data())));
        }
        PdfObject::Reference(n, g) => out.push_str(&format!("{} {} R", n, g)),
    }
}

pub fn render_dict(d: &PdfDictionary, out: &mut String) {
    let mut keys: Vec<(&String, &PdfObject)> = d.0.iter().map(|(k, v)| (&k.0, v)).collect();
    keys.sort_by(|a, b| a.0.cmp(b.0));
    out.push_str("<<");
    for (k, v) in keys {
        out.push('/');
        out.push_str(k);
        out.push(' ');
        render(v, out);
        out.push(' ');
    }
    out.push_str(">>");
}

pub fn rendered(o: &PdfObject) -> String {
    let mut s = String::new();
    render(o, &mut s);
    s
}
