//! Seams S1–S3: the simulated disk. `SimSource` (Read + Seek) and `SimSink` (Write) are views
//! that consult an explicit, replayable fault plan at every call, count what actually fired and
//! fold every call into an event-log digest.

use crate::common::*;
use serde::{Deserialize, Serialize};
use std::io::{self, Read, Seek, SeekFrom, Write};
use std::sync::{Arc, Mutex};

#[derive(Clone, Debug, Default, Serialize, Deserialize, PartialEq)]
pub struct SourcePlan {
    /// successful partial transfers: every read returns 1..=max_chunk bytes (0 = off), sizes from
    /// SplitMix(short_seed, call#)
    pub short_seed: u64,
    pub short_max_chunk: usize,
    /// read call numbers (1-based) that return ErrorKind::Interrupted once
    pub eintr_at: Vec<u64>,
    /// read call number that returns a hard I/O error (and every later read too, like a dead disk)
    pub err_read_at: Option<u64>,
    /// seek call number that returns an error
    pub err_seek_at: Option<u64>,
    /// after this many read calls the image shrinks to `eof_len` (concurrent truncate)
    pub eof_after_call: Option<u64>,
    pub eof_len: u64,
}

impl SourcePlan {
    pub fn is_faultless(&self) -> bool {
        *self == SourcePlan::default()
    }
    /// only successful partial transfers (results must equal the fault-free run)
    pub fn only_short(&self) -> bool {
        self.eintr_at.is_empty() && self.err_read_at.is_none() && self.err_seek_at.is_none() && self.eof_after_call.is_none()
    }
}

#[derive(Default, Debug, Clone)]
pub struct IoStats {
    pub reads: u64,
    pub seeks: u64,
    pub writes: u64,
    pub flushes: u64,
    pub bytes: u64,
    pub short_fired: u64,
    pub eintr_fired: u64,
    pub err_fired: u64,
    pub seek_err_fired: u64,
    pub eof_fired: u64,
    pub zero_fired: u64,
    pub flush_err_fired: u64,
    pub budget_exceeded: bool,
    pub log: u64,
    /// highest offset touched
    pub max_off: u64,
}

pub const STEP_BUDGET_DEFAULT: u64 = 2_000_000;

/// I/O calls allowed per opened source (overridable for diagnosis with VERIF_STEP_BUDGET).
pub fn step_budget() -> u64 {
    static B: std::sync::OnceLock<u64> = std::sync::OnceLock::new();
    *B.get_or_init(|| std::env::var("VERIF_STEP_BUDGET").ok().and_then(|s| s.parse().ok()).unwrap_or(STEP_BUDGET_DEFAULT))
}

pub struct SimSource {
    data: Arc<Vec<u8>>,
    pos: u64,
    plan: SourcePlan,
    pub stats: Arc<Mutex<IoStats>>,
    reads: u64,
    seeks: u64,
    dead: bool,
}

impl SimSource {
    pub fn new(data: Arc<Vec<u8>>, plan: SourcePlan) -> (SimSource, Arc<Mutex<IoStats>>) {
        let stats = Arc::new(Mutex::new(IoStats { log: fnv1a(b"src"), ..Default::default() }));
        (SimSource { data, pos: 0, plan, stats: stats.clone(), reads: 0, seeks: 0, dead: false }, stats)
    }
    fn len(&self) -> u64 {
        match self.plan.eof_after_call {
            Some(k) if self.reads > k => self.plan.eof_len.min(self.data.len() as u64),
            _ => self.data.len() as u64,
        }
    }
}

fn log(st: &mut IoStats, tag: u8, a: u64, b: u64, c: u64) {
    let mut h = st.log;
    h = fnv1a_more(h, &[tag]);
    h = fnv1a_more(h, &a.to_le_bytes());
    h = fnv1a_more(h, &b.to_le_bytes());
    h = fnv1a_more(h, &c.to_le_bytes());
    st.log = h;
}

impl Read for SimSource {
    fn read(&mut self, buf: &mut [u8]) -> io::Result<usize> {
        self.reads += 1;
        let mut st = self.stats.lock().unwrap();
        st.reads += 1;
        if st.reads + st.seeks > step_budget() + 200 * self.data.len() as u64 {
            st.budget_exceeded = true;
            return Err(io::Error::other("simdisk: step budget exhausted"));
        }
        if self.dead || self.plan.err_read_at == Some(self.reads) {
            self.dead = true;
            st.err_fired += 1;
            log(&mut st, b'E', self.pos, buf.len() as u64, 0);
            return Err(io::Error::other("simdisk: injected read error (EIO)"));
        }
        if self.plan.eintr_at.contains(&self.reads) {
            st.eintr_fired += 1;
            log(&mut st, b'I', self.pos, buf.len() as u64, 0);
            return Err(io::Error::new(io::ErrorKind::Interrupted, "simdisk: injected EINTR"));
        }
        let len = self.len();
        if let Some(k) = self.plan.eof_after_call {
            if self.reads == k + 1 {
                st.eof_fired += 1;
            }
        }
        let avail = len.saturating_sub(self.pos) as usize;
        let mut n = avail.min(buf.len());
        if self.plan.short_max_chunk > 0 && n > 1 {
            let mut r = Rng::new(mix(self.plan.short_seed, self.reads));
            let cap = n.min(self.plan.short_max_chunk);
            let k = 1 + r.usize_below(cap);
            if k < n {
                st.short_fired += 1;
                n = k;
            }
        }
        if n == 0 {
            log(&mut st, b'R', self.pos, buf.len() as u64, 0);
            return Ok(0);
        }
        let p = self.pos as usize;
        buf[..n].copy_from_slice(&self.data[p..p + n]);
        self.pos += n as u64;
        st.bytes += n as u64;
        st.max_off = st.max_off.max(self.pos);
        log(&mut st, b'R', p as u64, buf.len() as u64, n as u64);
        Ok(n)
    }
}

impl Seek for SimSource {
    fn seek(&mut self, to: SeekFrom) -> io::Result<u64> {
        self.seeks += 1;
        let mut st = self.stats.lock().unwrap();
        st.seeks += 1;
        if st.reads + st.seeks > step_budget() + 200 * self.data.len() as u64 {
            st.budget_exceeded = true;
            return Err(io::Error::other("simdisk: step budget exhausted"));
        }
        if self.plan.err_seek_at == Some(self.seeks) {
            st.seek_err_fired += 1;
            log(&mut st, b'F', self.pos, 0, 0);
            return Err(io::Error::other("simdisk: injected seek error"));
        }
        let len = self.len() as i128;
        let np: i128 = match to {
            SeekFrom::Start(o) => o as i128,
            SeekFrom::End(d) => len + d as i128,
            SeekFrom::Current(d) => self.pos as i128 + d as i128,
        };
        if np < 0 || np > u64::MAX as i128 {
            log(&mut st, b'N', self.pos, 0, 0);
            return Err(io::Error::new(io::ErrorKind::InvalidInput, "invalid seek to a negative or overflowing position"));
        }
        self.pos = np as u64;
        log(&mut st, b'S', self.pos, 0, 0);
        Ok(self.pos)
    }
}

// ---------------------------------------------------------------------------------------------

#[derive(Clone, Debug, Default, Serialize, Deserialize, PartialEq)]
pub struct SinkPlan {
    /// successful partial transfers: every write accepts 1..=max_chunk bytes (0 = off)
    pub short_seed: u64,
    pub short_max_chunk: usize,
    /// write call numbers that return ErrorKind::Interrupted once
    pub eintr_at: Vec<u64>,
    /// write call numbers that return Ok(0)
    pub zero_at: Vec<u64>,
    /// write call number from which every write fails (disk error)
    pub err_write_at: Option<u64>,
    /// the sink is full once this many bytes are stored (ENOSPC); writes beyond it fail
    pub full_at_byte: Option<u64>,
    /// flush call number that fails
    pub err_flush_at: Option<u64>,
    /// wrap the sink in a BufWriter (the composition Document::save uses): errors surface late
    pub buffered: bool,
}

impl SinkPlan {
    pub fn is_faultless(&self) -> bool {
        let mut p = self.clone();
        p.buffered = false;
        p == SinkPlan::default()
    }
    pub fn only_short(&self) -> bool {
        self.eintr_at.is_empty() && self.zero_at.is_empty() && self.err_write_at.is_none() && self.full_at_byte.is_none() && self.err_flush_at.is_none()
    }
}

pub struct SimSink {
    pub image: Arc<Mutex<Vec<u8>>>,
    plan: SinkPlan,
    pub stats: Arc<Mutex<IoStats>>,
    writes: u64,
    flushes: u64,
    dead: bool,
}

impl SimSink {
    pub fn new(plan: SinkPlan) -> (SimSink, Arc<Mutex<Vec<u8>>>, Arc<Mutex<IoStats>>) {
        let image = Arc::new(Mutex::new(Vec::new()));
        let stats = Arc::new(Mutex::new(IoStats { log: fnv1a(b"snk"), ..Default::default() }));
        (SimSink { image: image.clone(), plan, stats: stats.clone(), writes: 0, flushes: 0, dead: false }, image, stats)
    }
}

impl Write for SimSink {
    fn write(&mut self, buf: &[u8]) -> io::Result<usize> {
        self.writes += 1;
        let mut st = self.stats.lock().unwrap();
        st.writes += 1;
        if buf.is_empty() {
            return Ok(0);
        }
        if self.dead || self.plan.err_write_at.map(|k| self.writes >= k).unwrap_or(false) {
            self.dead = true;
            st.err_fired += 1;
            log(&mut st, b'E', buf.len() as u64, 0, 0);
            return Err(io::Error::other("simdisk: injected write error (EIO)"));
        }
        if self.plan.eintr_at.contains(&self.writes) {
            st.eintr_fired += 1;
            log(&mut st, b'I', buf.len() as u64, 0, 0);
            return Err(io::Error::new(io::ErrorKind::Interrupted, "simdisk: injected EINTR"));
        }
        if self.plan.zero_at.contains(&self.writes) {
            st.zero_fired += 1;
            log(&mut st, b'Z', buf.len() as u64, 0, 0);
            return Ok(0);
        }
        let mut img = self.image.lock().unwrap();
        let mut n = buf.len();
        if let Some(full) = self.plan.full_at_byte {
            let room = full.saturating_sub(img.len() as u64) as usize;
            if room == 0 {
                st.err_fired += 1;
                log(&mut st, b'F', buf.len() as u64, 0, 0);
                return Err(io::Error::other("simdisk: no space left on device (ENOSPC)"));
            }
            n = n.min(room);
        }
        if self.plan.short_max_chunk > 0 && n > 1 {
            let mut r = Rng::new(mix(self.plan.short_seed, self.writes));
            let cap = n.min(self.plan.short_max_chunk);
            let k = 1 + r.usize_below(cap);
            if k < n {
                n = k;
            }
        }
        if n < buf.len() {
            st.short_fired += 1;
        }
        img.extend_from_slice(&buf[..n]);
        st.bytes += n as u64;
        log(&mut st, b'W', buf.len() as u64, n as u64, img.len() as u64);
        Ok(n)
    }
    fn flush(&mut self) -> io::Result<()> {
        self.flushes += 1;
        let mut st = self.stats.lock().unwrap();
        st.flushes += 1;
        if self.dead || self.plan.err_flush_at == Some(self.flushes) {
            st.flush_err_fired += 1;
            log(&mut st, b'f', 0, 0, 0);
            return Err(io::Error::other("simdisk: injected flush error"));
        }
        log(&mut st, b'L', 0, 0, 0);
        Ok(())
    }
}

pub fn bump_io(out: &mut Outcome, prefix: &str, st: &IoStats) {
    out.bump(&format!("fault.{}short_transfer", prefix), st.short_fired);
    out.bump(&format!("fault.{}eintr", prefix), st.eintr_fired);
    out.bump(&format!("fault.{}io_error", prefix), st.err_fired);
    out.bump(&format!("fault.{}seek_error", prefix), st.seek_err_fired);
    out.bump(&format!("fault.{}early_eof", prefix), st.eof_fired);
    out.bump(&format!("fault.{}zero_write", prefix), st.zero_fired);
    out.bump(&format!("fault.{}flush_error", prefix), st.flush_err_fired);
    out.sim_steps += st.reads + st.seeks + st.writes + st.flushes;
}

/// Draw a source plan. `mode`: 0 none, 1 short reads only, 2 error-class faults (plus maybe short)
pub fn gen_source_plan(r: &mut Rng, mode: u32, approx_calls: u64, len: u64) -> SourcePlan {
    let mut p = SourcePlan::default();
    if mode == 0 {
        return p;
    }
    if mode == 1 || r.chance(1, 2) {
        p.short_seed = r.next_u64();
        p.short_max_chunk = *r.pick(&[1usize, 2, 3, 7, 16, 64, 257, 1000, 4096, 8191]);
    }
    if mode == 2 {
        let calls = approx_calls.max(4);
        match r.below(4) {
            0 => {
                for _ in 0..1 + r.below(3) {
                    p.eintr_at.push(1 + r.below(calls));
                }
            }
            1 => p.err_read_at = Some(1 + r.below(calls)),
            2 => p.err_seek_at = Some(1 + r.below(calls.min(60))),
            _ => {
                p.eof_after_call = Some(r.below(calls));
                p.eof_len = r.below(len.max(1));
            }
        }
    }
    p
}
