//! C02 — documents written by the library read back with the same content (transport part).
//! The fault-free baseline run (classic xref, no compression, Vec sink, Cursor source) read back by
//! the library is the reference view. Every other writer configuration, through a shortening sink
//! and a shortening source, must give the same view — in the library's reader and in the
//! independent reader.

use crate::common::*;
use crate::disk::*;
use crate::gen::*;
use crate::runner::*;
use crate::simdisk::*;
use crate::simseam::ProcEnv;
use crate::view::*;
use oxidize_pdf::parser::PdfReader;
use serde::{Deserialize, Serialize};
use serde_json::Value;
use std::io::Cursor;
use std::sync::Arc;

pub struct C02;

#[derive(Clone, Debug, Serialize, Deserialize)]
pub struct Case {
    pub program: Program,
    pub cfg: WCfg,
    pub sink: SinkPlan,
    pub source: SourcePlan,
    pub preset: String,
    pub entropy_seed: u64,
}

fn gen_case(cs: u64) -> Case {
    let mut r = Rng::new(cs);
    let program = gen_program(&mut r, &GenProgOpts { max_pages: 4, tricky_text: true, images: true, big_images: false, rich: true, tricky_names: false });
    let mut program = program;
    if r.chance(1, 25) {
        add_many_pages(&mut r, &mut program);
    }
    let cfgs = all_configs();
    let mut cfg = cfgs[r.usize_below(cfgs.len())].clone();
    if cfg.object_streams && !r.chance(1, 4) {
        cfg.object_streams = false;
    }
    let mut sink = SinkPlan::default();
    if r.chance(1, 3) {
        sink.short_seed = r.next_u64();
        sink.short_max_chunk = *r.pick(&[1usize, 3, 64, 1000, 4096]);
    }
    sink.buffered = r.chance(1, 4);
    let source = if r.chance(1, 2) { gen_source_plan(&mut r, 1, 60, 4096) } else { SourcePlan::default() };
    Case { program, cfg, sink, source, preset: r.pick(&["strict", "default", "tolerant", "skip_errors"]).to_string(), entropy_seed: r.next_u64() }
}

fn exec_inner(c: &Case, out: &mut Outcome) {
    // baseline
    let mut base_bytes: Vec<u8> = Vec::new();
    match crate::c03::write_through(&c.program, &WCfg::classic(false), &None, &mut base_bytes) {
        Ok(Ok(())) => {}
        _ => {
            out.bump("skipped.unbuildable_program", 1);
            return;
        }
    }
    let baseline = match PdfReader::new_with_options(Cursor::new(base_bytes.clone()), preset("default")).map_err(|e| e.to_string()).and_then(library_view) {
        Ok(v) => v,
        Err(e) => {
            out.violate("baseline-unreadable", format!("classic/uncompressed output cannot be read back: {}", e));
            return;
        }
    };
    // ground truth by construction: what the authoring program asked for
    {
        let mut truth: Vec<([i64; 4], i64, Vec<(String, i64, i64, u64)>)> = vec![];
        let mut title: Option<String> = None;
        for op in &c.program.ops {
            match op {
                DocOp::NewPage { w, h, rotation } => truth.push(([0, 0, (w * 1000.0).round() as i64, (h * 1000.0).round() as i64], *rotation as i64, vec![])),
                DocOp::Image { name, w, h, gray, seed, .. } => {
                    if let Some(t) = truth.last_mut() {
                        t.2.push((name.clone(), *w as i64, *h as i64, fnv1a(&image_bytes(*w, *h, *gray, *seed))));
                    }
                }
                DocOp::Info { title: Some(t), .. } if t.is_ascii() => title = Some(t.clone()),
                _ => {}
            }
        }
        if truth.len() != baseline.pages.len() {
            out.violate("authored-vs-readback:page-count-differs", format!("the program adds {} pages, the baseline file reads back with {}", truth.len(), baseline.pages.len()));
            return;
        }
        for (i, (t, p)) in truth.iter().zip(baseline.pages.iter()).enumerate() {
            if t.0 != p.media_box {
                out.violate("authored-vs-readback:page-box-differs", format!("page {}: authored MediaBox {:?} (milli-units), read back {:?}", i, t.0, p.media_box));
                return;
            }
            if t.1 != p.rotation {
                out.violate("authored-vs-readback:rotation-differs", format!("page {}: authored rotation {}, read back {}", i, t.1, p.rotation));
                return;
            }
            let mut want = t.2.clone();
            want.sort();
            let got: Vec<(String, i64, i64, u64)> = p.images.iter().map(|x| (x.0.clone(), x.1, x.2, x.5)).collect();
            if want != got {
                out.violate("authored-vs-readback:image-differs", format!("page {}: authored images (name, w, h, sample digest) {:?}, read back {:?}", i, want, got));
                return;
            }
        }
        if let Some(t) = title {
            let got = baseline.info.iter().find(|(k, _)| k == "Title").map(|(_, v)| v.clone());
            if got.as_deref() != Some(t.as_bytes()) {
                out.violate("authored-vs-readback:metadata-differs", format!("authored ASCII title {:?}, read back {:?}", t, got.map(|b| String::from_utf8_lossy(&b).to_string())));
                return;
            }
        }
        // painting calls: effective fill colour / stroke colour / line width at every path-painting
        // operator of the content read back, against the graphics-state model of the program
        let want = crate::paint::expected(&c.program);
        let want_geom = crate::paint::expected_geom(&c.program);
        for (i, (w, p)) in want.iter().zip(baseline.pages.iter()).enumerate() {
            match crate::paint::interpret_full(&p.content) {
                Err(e) => {
                    out.violate("authored-vs-readback:content-does-not-tokenize", format!("page {}: {}", i, e));
                    return;
                }
                Ok(got) => {
                    if got.len() != w.len() {
                        out.violate("authored-vs-readback:paint-count-differs", format!("page {}: the program paints {} paths, the content read back paints {}", i, w.len(), got.len()));
                        return;
                    }
                    for (k, (a, (b, geom))) in w.iter().zip(got.iter()).enumerate() {
                        if let Some(Err(e)) = want_geom.get(i).and_then(|g| g.get(k)).map(|g| g.check(geom)) {
                            out.violate("authored-vs-readback:path-operands-differ", format!("page {} painting call #{}: {}", i, k, e));
                            return;
                        }
                        out.bump("probe.path_geometries_checked", 1);
                        if !a.agrees(b) {
                            out.violate(
                                "authored-vs-readback:paint-state-differs",
                                format!("page {} painting call #{}: authored {:?}, but the content stream read back paints with {:?}", i, k, a, b),
                            );
                            return;
                        }
                    }
                    out.bump("probe.paint_events_checked", got.len() as u64);
                }
            }
        }
        out.bump("probe.authored_truth_checked", 1);
    }
    out.nontrivial = !baseline.pages.iter().all(|p| p.content.is_empty());
    out.digest = mix(baseline.digest(), fnv1a(c.cfg.label().as_bytes()));
    out.bump(&format!("cfg.{}", c.cfg.label()), 1);
    out.bump("pages", baseline.pages.len() as u64);
    out.bump("probe.pages_with_images", baseline.pages.iter().filter(|p| !p.images.is_empty()).count() as u64);
    out.bump("probe.pages_with_text", baseline.pages.iter().filter(|p| !p.text.trim().is_empty()).count() as u64);
    // the authoring API's own account of what each page emits must be in the baseline content
    if let Ok(doc) = build_document(&c.program) {
        for (i, pg) in doc.pages().iter().enumerate() {
            let g = pg.graphics_operations();
            if let Some(pv) = baseline.pages.get(i) {
                let hay = String::from_utf8_lossy(&pv.content).to_string();
                let all_lines_present = g.lines().filter(|l| !l.trim().is_empty()).all(|l| hay.contains(l.trim()));
                if all_lines_present {
                    out.bump("probe.api_graphics_ops_found_in_content", 1);
                } else {
                    let missing = g.lines().find(|l| !l.trim().is_empty() && !hay.contains(l.trim())).unwrap_or("").to_string();
                    out.violate(
                        "api-ops-missing-from-content",
                        format!("page {}: operator line {:?} reported by Page::graphics_operations() is not in the content stream read back from the baseline file", i, missing),
                    );
                    return;
                }
            }
        }
    }
    // the configuration under test, through the shortening sink
    let (sink, image, sstats) = SimSink::new(c.sink.clone());
    let wr = if c.sink.buffered {
        crate::c03::write_through(&c.program, &c.cfg, &None, std::io::BufWriter::with_capacity(512 * 1024, sink))
    } else {
        crate::c03::write_through(&c.program, &c.cfg, &None, sink)
    };
    let st = sstats.lock().unwrap().clone();
    bump_io(out, "sink_", &st);
    match wr {
        Ok(Ok(())) => {}
        Ok(Err(e)) => {
            out.violate("write-failed-under-partial-writes", format!("config {}: write_document failed although the sink never failed: {}", c.cfg.label(), e));
            return;
        }
        Err(_) => return,
    }
    let img = Arc::new(image.lock().unwrap().clone());
    if let Ok(path) = std::env::var("VERIF_DUMP") {
        let _ = std::fs::write(path, &*img);
    }
    out.bump("output_bytes", img.len() as u64);
    // library reader through the shortening source
    let (src, rstats) = SimSource::new(img.clone(), c.source.clone());
    let got = PdfReader::new_with_options(src, preset(&c.preset)).map_err(|e| format!("open: {}", e)).and_then(library_view);
    let rst = rstats.lock().unwrap().clone();
    bump_io(out, "src_", &rst);
    out.log_digest = mix(mix(out.log_digest, st.log), rst.log);
    match got {
        Err(e) => {
            out.violate("readback-failed", format!("config {} preset {}: the written file cannot be read back: {}", c.cfg.label(), c.preset, e));
            return;
        }
        Ok(v) => {
            if let Some((what, detail)) = baseline.diff(&v, ("baseline", "readback")) {
                out.violate(&format!("library-readback:{}-differs", what), format!("config {} preset {}: {}", c.cfg.label(), c.preset, detail));
                return;
            }
        }
    }
    // independent reader on the same image
    match independent_view(&img) {
        Err(e) => {
            out.violate("independent-readback-failed", format!("config {}: {}", c.cfg.label(), e));
        }
        Ok(iv) => {
            if iv.pages.len() != baseline.pages.len() {
                out.violate("independent-readback:page-count-differs", format!("config {}: independent reader sees {} pages, baseline {}", c.cfg.label(), iv.pages.len(), baseline.pages.len()));
                return;
            }
            for (i, (a, b)) in baseline.pages.iter().zip(iv.pages.iter()).enumerate() {
                let imgs = |p: &PageView| p.images.iter().map(|t| (t.0.clone(), t.1, t.2, t.4, t.5)).collect::<Vec<_>>();
                let what = if a.media_box != b.media_box {
                    Some(("page-box", format!("{:?} vs {:?}", a.media_box, b.media_box)))
                } else if a.rotation != b.rotation {
                    Some(("rotation", format!("{} vs {}", a.rotation, b.rotation)))
                } else if a.content != b.content {
                    Some(("content", format!("{} vs {} bytes", a.content.len(), b.content.len())))
                } else if imgs(a) != imgs(b) {
                    Some(("image", format!("{:?} vs {:?}", imgs(a), imgs(b))))
                } else {
                    None
                };
                if let Some((w, d)) = what {
                    out.violate(&format!("independent-readback:{}-differs", w), format!("config {} page {}: baseline vs independent reader: {}", c.cfg.label(), i, d));
                    return;
                }
            }
            out.bump("probe.independent_reader_agreed", 1);
        }
    }
}

impl Property for C02 {
    fn id(&self) -> &'static str {
        "C02"
    }
    fn engine(&self) -> Engine {
        Engine::Disk
    }
    fn cases(&self, tier: Tier) -> u64 {
        match tier {
            Tier::Quick => 2_500,
            Tier::Thorough => 60_000,
        }
    }
    fn gen(&self, cs: u64, _tier: Tier, _ctx: &ExecCtx) -> Value {
        serde_json::to_value(gen_case(cs)).unwrap()
    }
    fn exec(&self, case: &Value, ctx: &ExecCtx) -> Outcome {
        let c: Case = match serde_json::from_value(case.clone()) {
            Ok(c) => c,
            Err(e) => {
                let mut o = Outcome::default();
                o.violate("harness-bad-case", e.to_string());
                return o;
            }
        };
        let env = ProcEnv::fixed(c.entropy_seed);
        in_case_thread(ctx, &env, 120_000, move |out| exec_inner(&c, out))
    }
    fn shrink(&self, case: &Value) -> Vec<Value> {
        let c: Case = match serde_json::from_value(case.clone()) {
            Ok(c) => c,
            Err(_) => return vec![],
        };
        let mut v = vec![];
        let push = |n: Case, v: &mut Vec<Value>| v.push(serde_json::to_value(&n).unwrap());
        if !c.source.is_faultless() {
            let mut n = c.clone();
            n.source = SourcePlan::default();
            push(n, &mut v);
        }
        if !c.sink.is_faultless() || c.sink.buffered {
            let mut n = c.clone();
            n.sink = SinkPlan::default();
            push(n, &mut v);
        }
        for p in shrink_program(&c.program) {
            let mut n = c.clone();
            n.program = p;
            push(n, &mut v);
        }
        v
    }
    fn sample(&self, case: &Value) -> Value {
        truncate_json(case, 120)
    }
    fn describe(&self) -> Describe {
        Describe {
            rule: "case = generated authoring program (1-4 pages: sizes, rotation, text in the standard fonts with delimiters and non-ASCII, paths whose operands come one time in five from the edges of the number formatter's domain (negative, strictly between -1 and 0, tiny, >= 1000, integral), colours, line state, q/cm/Q blocks, raw RGB/grey images, opacity, patterns, shadings, form XObjects, notes, fields, outline, info) x writer configuration (table / xref stream / object streams x compression x version) x sink plan (fault-free | short writes; 1 in 4 behind the BufWriter of Document::save) x source plan (fault-free | short reads) x reader preset. Reference = the view (page count, boxes, rotation, decoded content bytes, extracted text, images, annotation contents, info strings, field values, outline titles) of the fault-free classic/uncompressed run. For the reference run the content read back is also held against the authoring program itself: effective fill/stroke colour and line width at every painting operator (graphics-state model), and the geometry of every painted path (each m/l/c/re/h operand and the cm of a transformed rectangle within the documented two-decimal rounding; circles by their on-curve points). The configuration under test must give the identical view in the library's reader, and the independent reader must agree on page count, boxes, rotation, content bytes and images. non-trivial = at least one page has content; distinct = digest of (reference view, configuration).".into(),
            assumptions: vec![
                "transport part only: whether parse(serialize_ops(ops)) == ops is C21 (pure), not decided here".into(),
                "the independent reader (refpdf) is written for this harness; no third-party PDF implementation is installed".into(),
                "equal decoded content-stream bytes imply the same operator sequence with the same operands".into(),
            ],
            real_components: vec!["authoring API, graphics/text serialisation".into(), "writer (all configurations, object streams, xref streams)".into(), "parser + text extraction (all presets)".into()],
            stub_components: vec!["sink: SimSink / BufWriter<SimSink>".into(), "source: SimSource".into(), "entropy/clock/pid: libsim.so".into(), "second reader: refpdf (harness)".into()],
            fault_kinds: vec!["sink short_write".into(), "src short_read".into(), "BufWriter composition".into()],
            level: "exploration",
            exhaustive_note: None,
        }
    }
}
