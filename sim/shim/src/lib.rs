//! verif_shim — a std-shaped facade over shuttle for the modules of oxidize-pdf that are
//! compiled with `--cfg oxidize_pdf_verif` (batch/*, memory/cache.rs).
//!
//! It gives those modules *std's semantics* on top of shuttle's controlled scheduler:
//!  * `thread::spawn` isolates panics (`JoinHandle::join` returns `Err(payload)`), as std does;
//!    shuttle alone aborts the whole execution when any task panics.
//!  * `mpsc::Sender/Receiver` hang up when dropped during unwinding, as std's do; shuttle's own
//!    halves skip their bookkeeping while `std::thread::panicking()`, which would turn a panic in a
//!    job into a deadlock that real threads do not have. A half dropped while unwinding is parked
//!    and dropped for real as soon as the unwind has been caught (no scheduling point in between).
//!
//! Everything else is a plain re-export of shuttle's primitives, each of whose operations is a
//! scheduling point decided by the seeded scheduler.

use std::any::Any;
use std::cell::RefCell;

std::thread_local! {
    // shuttle runs all tasks of an execution on one OS thread, so this list is global to the
    // execution. It is only ever non-empty between a panic and the end of the `catch_unwind`
    // in `thread::spawn` below, a window without scheduling points.
    static DEFERRED: RefCell<Vec<Box<dyn Any>>> = const { RefCell::new(Vec::new()) };
}

fn defer_drop(b: Box<dyn Any>) {
    DEFERRED.with(|d| d.borrow_mut().push(b));
}

fn drain_deferred() {
    loop {
        let item = DEFERRED.with(|d| d.borrow_mut().pop());
        match item {
            Some(b) => drop(b),
            None => break,
        }
    }
}

/// Number of channel halves whose drop was deferred past an unwind (reach probe).
pub static DEFERRED_DROPS: std::sync::atomic::AtomicUsize = std::sync::atomic::AtomicUsize::new(0);
/// Number of panics isolated by `thread::spawn` (reach probe).
pub static ISOLATED_PANICS: std::sync::atomic::AtomicUsize = std::sync::atomic::AtomicUsize::new(0);

pub mod sync {
    pub use shuttle::sync::{Mutex, MutexGuard, RwLock, RwLockReadGuard, RwLockWriteGuard};
    pub use std::sync::{Arc, Weak};

    pub mod atomic {
        pub use shuttle::sync::atomic::{AtomicBool, AtomicUsize, AtomicU64, AtomicIsize, Ordering};
    }

    pub mod mpsc {
        use crate::defer_drop;
        pub use shuttle::sync::mpsc::{RecvError, SendError, TryRecvError};
        use shuttle::sync::mpsc as sh;

        pub fn channel<T: 'static>() -> (Sender<T>, Receiver<T>) {
            let (s, r) = sh::channel();
            (Sender { inner: Some(s) }, Receiver { inner: Some(r) })
        }

        pub struct Sender<T: 'static> {
            inner: Option<sh::Sender<T>>,
        }

        impl<T: 'static> Sender<T> {
            pub fn send(&self, t: T) -> Result<(), SendError<T>> {
                self.inner.as_ref().unwrap().send(t)
            }
        }

        impl<T: 'static> Clone for Sender<T> {
            fn clone(&self) -> Self {
                Sender { inner: self.inner.clone() }
            }
        }

        impl<T: 'static> Drop for Sender<T> {
            fn drop(&mut self) {
                if let Some(s) = self.inner.take() {
                    if std::thread::panicking() {
                        crate::DEFERRED_DROPS.fetch_add(1, std::sync::atomic::Ordering::Relaxed);
                        defer_drop(Box::new(s));
                    } else {
                        drop(s);
                    }
                }
            }
        }

        impl<T: 'static> std::fmt::Debug for Sender<T> {
            fn fmt(&self, f: &mut std::fmt::Formatter<'_>) -> std::fmt::Result {
                f.write_str("Sender { .. }")
            }
        }

        pub struct Receiver<T: 'static> {
            inner: Option<sh::Receiver<T>>,
        }

        impl<T: 'static> Receiver<T> {
            pub fn recv(&self) -> Result<T, RecvError> {
                self.inner.as_ref().unwrap().recv()
            }
            pub fn try_recv(&self) -> Result<T, TryRecvError> {
                self.inner.as_ref().unwrap().try_recv()
            }
            pub fn iter(&self) -> Iter<'_, T> {
                Iter { rx: self }
            }
        }

        impl<T: 'static> Drop for Receiver<T> {
            fn drop(&mut self) {
                if let Some(r) = self.inner.take() {
                    if std::thread::panicking() {
                        crate::DEFERRED_DROPS.fetch_add(1, std::sync::atomic::Ordering::Relaxed);
                        defer_drop(Box::new(r));
                    } else {
                        drop(r);
                    }
                }
            }
        }

        impl<T: 'static> std::fmt::Debug for Receiver<T> {
            fn fmt(&self, f: &mut std::fmt::Formatter<'_>) -> std::fmt::Result {
                f.write_str("Receiver { .. }")
            }
        }

        pub struct Iter<'a, T: 'static> {
            rx: &'a Receiver<T>,
        }
        impl<T: 'static> Iterator for Iter<'_, T> {
            type Item = T;
            fn next(&mut self) -> Option<T> {
                self.rx.recv().ok()
            }
        }
        impl<'a, T: 'static> IntoIterator for &'a Receiver<T> {
            type Item = T;
            type IntoIter = Iter<'a, T>;
            fn into_iter(self) -> Iter<'a, T> {
                self.iter()
            }
        }

        pub struct IntoIter<T: 'static> {
            rx: Receiver<T>,
        }
        impl<T: 'static> Iterator for IntoIter<T> {
            type Item = T;
            fn next(&mut self) -> Option<T> {
                self.rx.recv().ok()
            }
        }
        impl<T: 'static> IntoIterator for Receiver<T> {
            type Item = T;
            type IntoIter = IntoIter<T>;
            fn into_iter(self) -> IntoIter<T> {
                IntoIter { rx: self }
            }
        }
    }
}

pub mod thread {
    use std::any::Any;
    use std::panic::{catch_unwind, AssertUnwindSafe};
    use std::time::Duration;

    pub use shuttle::thread::{current, yield_now, Thread, ThreadId};

    pub type Result<T> = std::result::Result<T, Box<dyn Any + Send + 'static>>;

    pub struct JoinHandle<T> {
        inner: shuttle::thread::JoinHandle<Result<T>>,
    }

    impl<T> JoinHandle<T> {
        /// std semantics: `Err(payload)` if the thread's closure panicked.
        pub fn join(self) -> Result<T> {
            match self.inner.join() {
                Ok(r) => r,
                Err(e) => Err(e),
            }
        }
        pub fn thread(&self) -> &Thread {
            self.inner.thread()
        }
    }

    pub fn spawn<F, T>(f: F) -> JoinHandle<T>
    where
        F: FnOnce() -> T + Send + 'static,
        T: Send + 'static,
    {
        let inner = shuttle::thread::spawn(move || {
            let r = catch_unwind(AssertUnwindSafe(f));
            if r.is_err() {
                crate::ISOLATED_PANICS.fetch_add(1, std::sync::atomic::Ordering::Relaxed);
            }
            // not panicking any more: channel halves parked during the unwind hang up now
            crate::drain_deferred();
            r
        });
        JoinHandle { inner }
    }

    /// shuttle does not model time; a sleep is a context switch.
    pub fn sleep(d: Duration) {
        shuttle::thread::sleep(d)
    }
}

/// Deterministic stand-ins for two process-history-dependent values that `encryption::aes::
/// generate_iv` mixes into its IVs (the std thread id and a process-wide call counter). Every
/// simulated case runs on a fresh thread, so a per-thread counter starting at 0 makes the IVs a
/// function of the case's owned clock / pid / this counter only.
pub mod det {
    use std::cell::Cell;
    std::thread_local! {
        static COUNTER: Cell<usize> = const { Cell::new(0) };
    }
    pub fn thread_tag() -> u64 {
        0
    }
    pub fn next_counter() -> usize {
        COUNTER.with(|c| {
            let v = c.get();
            c.set(v + 1);
            v
        })
    }
}
